fn main() {
    // export the executable's symbols dynamically so that dlsym(RTLD_DEFAULT, ..)
    // lookups (std's weak-symbol probes) also resolve to the interposers
    println!("cargo:rustc-link-arg-bins=-rdynamic");
}
