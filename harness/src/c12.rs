//! C12 — all events of a context live on one shard; unscoped reads cover all shards.
//! Context-id alphabet x shard counts 1..8, 11, 12, 16, 300; plus a busy context (more than 4096, thorough 8192, events of one context in one lifetime on 1 and 2 shards: one tag, below the shard count, complete scoped read), two process lifetimes.
use crate::job::{Op, SnapMode};
use crate::lab::*;
use crate::sys::SysConfig;
use serde_json::{json, Value};
use std::collections::{BTreeMap, BTreeSet};

pub fn contexts(tier: &str) -> Vec<String> {
    let alpha = ["a", "A", "b", "-", "_", "é", "0", ".", ":"];
    let mut v: Vec<String> = Vec::new();
    for x in alpha {
        v.push(x.to_string());
    }
    for x in alpha {
        for y in alpha {
            v.push(format!("{x}{y}"));
        }
    }
    let n3 = if tier == "quick" { 4 } else { alpha.len() };
    for x in &alpha[..n3] {
        for y in alpha {
            for z in &alpha[..n3] {
                v.push(format!("{x}{y}{z}"));
            }
        }
    }
    // case / whitespace variants, long and non-ASCII ids
    for s in ["user-1", "User-1", "USER-1", " user-1", "user-1 ", "user 1", "user\t1", "ü", "ｕｓｅｒ", "日本語のコンテキスト", "c0", "c1", "null", "0", "-1"] {
        v.push(s.to_string());
    }
    v.push("k".repeat(1024));
    v.push(format!("{}é", "long-".repeat(200)));
    v.sort();
    v.dedup();
    v
}

fn quote(c: &str) -> String {
    format!("\"{c}\"")
}

pub fn check(tier: &str) -> i32 {
    let t0 = std::time::Instant::now();
    let kf = crate::known::load();
    let scratch = Scratch::new("c12");
    let ctxs = contexts(tier);
    // two-digit shard numbers too (directory names shard-10, shard-11, ...)
    let shard_counts: Vec<usize> = (1..=8).chain([11, 12, 16, 300]).collect();
    let restarts = ["clean", "kill"];
    let work: Vec<(usize, &str)> = shard_counts.iter().flat_map(|n| restarts.iter().map(move |r| (*n, *r))).collect();
    let res = par_map(&work, threads(), |wi, (n, restart)| -> Result<(Vec<String>, usize), String> {
        let cfg = SysConfig { shards: *n, fill_factor: 128, event_per_zone: 8, ..Default::default() };
        let dir = scratch.dir.join(format!("n{wi}"));
        let mut l1 = vec![Op::Cmd { text: "DEFINE t FIELDS { k: \"int\", c: \"string\" }".into() }, Op::Cmd { text: "DEFINE t2 FIELDS { k: \"int\", c: \"string\" }".into() }];
        for (i, c) in ctxs.iter().enumerate() {
            l1.push(Op::Cmd { text: format!("STORE t FOR {} PAYLOAD {}", quote(c), json!({"k": i as i64 * 2, "c": c})) });
        }
        if *restart == "clean" {
            l1.push(Op::Shutdown);
        }
        let mut l2 = Vec::new();
        for (i, c) in ctxs.iter().enumerate() {
            l2.push(Op::Cmd { text: format!("STORE t FOR {} PAYLOAD {}", quote(c), json!({"k": i as i64 * 2 + 1, "c": c})) });
        }
        // a second event type for the first contexts: the context, not the (type, context) pair, owns the shard
        let n2 = 60.min(ctxs.len());
        for (i, c) in ctxs.iter().take(n2).enumerate() {
            l2.push(Op::Cmd { text: format!("STORE t2 FOR {} PAYLOAD {}", quote(c), json!({"k": 1_000_000 + i as i64, "c": c})) });
        }
        let mut qs: Vec<String> = ctxs.iter().map(|c| format!("QUERY t FOR {}", quote(c))).collect();
        qs.push("QUERY t".into());
        qs.extend(ctxs.iter().take(40).map(|c| format!("REPLAY t FOR {}", quote(c))));
        qs.extend(ctxs.iter().take(n2).map(|c| format!("QUERY t2 FOR {}", quote(c))));
        l2.push(Op::Observe { queries: qs.clone() });
        let lives = vec![LifeSpec { ops: l1, snap: SnapMode::Off, fsmon: false }, LifeSpec { ops: l2, snap: SnapMode::Off, fsmon: false }];
        let rr = run_lifetimes(&dir, &cfg, 21 + wi as u64, &lives, false)?;
        for r in &rr {
            if let Some(e) = &r.error {
                return Err(e.clone());
            }
        }
        let mut viol: Vec<String> = Vec::new();
        // every STORE accepted?
        for (li, r) in rr.iter().enumerate() {
            for (oi, st) in r.steps.iter().enumerate() {
                if let Some(rep) = st.replies.first() {
                    if oi > 0 && !rep.ok() && st.replies.len() == 1 {
                        viol.push(format!("store-rejected: life {li} op {oi}: {} {}", rep.status, rep.message));
                    }
                }
            }
        }
        let obs = rr[1].steps.last().unwrap();
        let shard_of = |id: u64| ((id >> 12) & 0x3ff) as usize;
        let mut ctx_shard: BTreeMap<String, usize> = BTreeMap::new();
        let mut judged = 0usize;
        for (i, c) in ctxs.iter().enumerate() {
            let rep = &obs.replies[i];
            judged += 1;
            let mut ks: Vec<i64> = rep.rows.iter().filter_map(|r| r.get("k").and_then(|v| v.as_i64())).collect();
            ks.sort();
            let want = vec![i as i64 * 2, i as i64 * 2 + 1];
            if ks != want {
                viol.push(format!("scoped-read: shards={n} restart={restart} FOR {c:?} returned k={ks:?}, stored {want:?}"));
            }
            let shards: BTreeSet<usize> = rep.rows.iter().filter_map(|r| r.get("event_id").and_then(|v| v.as_u64())).map(shard_of).collect();
            if shards.len() > 1 {
                viol.push(format!("split-context: shards={n} restart={restart} context {c:?} has events tagged with shards {shards:?}"));
            }
            if let Some(s) = shards.iter().next() {
                if *s >= *n {
                    viol.push(format!("bad-shard-tag: shards={n} context {c:?} event id carries shard {s}"));
                }
                ctx_shard.insert(c.clone(), *s);
            }
            for row in &rep.rows {
                if row.get("context_id").and_then(|v| v.as_str()) != Some(c.as_str()) {
                    viol.push(format!("foreign-row: shards={n} FOR {c:?} returned a row of context {:?}", row.get("context_id")));
                }
            }
        }
        // unscoped = union of all shards
        let all = &obs.replies[ctxs.len()];
        let mut ks: Vec<i64> = all.rows.iter().filter_map(|r| r.get("k").and_then(|v| v.as_i64())).collect();
        ks.sort();
        let want: Vec<i64> = (0..ctxs.len() as i64 * 2).collect();
        if ks != want {
            let missing: Vec<i64> = want.iter().filter(|k| !ks.contains(k)).copied().take(5).collect();
            viol.push(format!("unscoped-read: shards={n} restart={restart} QUERY t returned {} rows, stored {}; e.g. missing k={missing:?}", ks.len(), want.len()));
        }
        let used: BTreeSet<usize> = all.rows.iter().filter_map(|r| r.get("event_id").and_then(|v| v.as_u64())).map(shard_of).collect();
        judged += 1;
        for (j, c) in ctxs.iter().take(40).enumerate() {
            let rep = &obs.replies[ctxs.len() + 1 + j];
            let ks: Vec<i64> = rep.rows.iter().filter_map(|r| r.get("k").and_then(|v| v.as_i64())).collect();
            let i = j as i64;
            judged += 1;
            let mut sorted = ks.clone();
            sorted.sort();
            if sorted != vec![i * 2, i * 2 + 1] {
                viol.push(format!("scoped-replay: shards={n} restart={restart} REPLAY t FOR {c:?} returned k={ks:?}"));
            }
        }
        // the second event type of a context: complete, and tagged with the same shard
        for (j, c) in ctxs.iter().take(n2).enumerate() {
            let rep = &obs.replies[ctxs.len() + 1 + 40.min(ctxs.len()) + j];
            judged += 1;
            let ks: Vec<i64> = rep.rows.iter().filter_map(|r| r.get("k").and_then(|v| v.as_i64())).collect();
            if ks != vec![1_000_000 + j as i64] {
                viol.push(format!("scoped-read: shards={n} restart={restart} QUERY t2 FOR {c:?} returned k={ks:?}"));
            }
            let tags: BTreeSet<usize> = rep.rows.iter().filter_map(|r| r.get("event_id").and_then(|v| v.as_u64())).map(shard_of).collect();
            if let (Some(t2), Some(t1)) = (tags.iter().next(), ctx_shard.get(c)) {
                if t2 != t1 {
                    viol.push(format!("split-context: shards={n} context {c:?}: events of type t carry shard {t1}, events of type t2 shard {t2}"));
                }
            }
        }
        // the WAL directory that holds a context's second event (kill restart keeps the first too) agrees with the id tag
        let mut wal_ctx: BTreeMap<String, BTreeSet<usize>> = BTreeMap::new();
        for s in 0..*n {
            let d = dir.join(format!("db/wal/shard-{s}"));
            if let Ok(rd) = std::fs::read_dir(&d) {
                for e in rd.flatten() {
                    if let Ok(text) = std::fs::read_to_string(e.path()) {
                        for line in text.lines() {
                            if let Ok(v) = serde_json::from_str::<Value>(line) {
                                if let Some(c) = v.get("context_id").and_then(|x| x.as_str()) {
                                    wal_ctx.entry(c.to_string()).or_default().insert(s);
                                }
                            }
                        }
                    }
                }
            }
        }
        for (c, dirs) in &wal_ctx {
            if dirs.len() > 1 {
                viol.push(format!("split-context: shards={n} context {c:?} appears in the WAL directories of shards {dirs:?}"));
            }
            if let (Some(d), Some(tag)) = (dirs.iter().next(), ctx_shard.get(c)) {
                if d != tag {
                    viol.push(format!("tag-vs-directory: shards={n} context {c:?} id tag {tag}, WAL directory shard-{d}"));
                }
            }
        }
        if *n > 1 && used.len() < 2 {
            viol.push(format!("routing-degenerate: shards={n}: all {} contexts went to shards {used:?}", ctxs.len()));
        }
        let _ = std::fs::remove_dir_all(&dir);
        Ok((viol, judged))
    });
    // a busy context: more than 4096 (thorough: 8192) events of one context in one process lifetime, one
    // shard and two shards; every id of the context carries one tag, the tag is below the shard count,
    // and the scoped read returns every event
    let busy_n: i64 = if tier == "quick" { 4200 } else { 8300 };
    let busy_work: Vec<usize> = vec![1, 2];
    let busy = par_map(&busy_work, threads(), |wi, n| -> Result<(Vec<String>, usize), String> {
        let cfg = SysConfig { shards: *n, fill_factor: 200, event_per_zone: 1000, ..Default::default() };
        let dir = scratch.dir.join(format!("busy{wi}"));
        let mut l1 = vec![Op::Cmd { text: "DEFINE t FIELDS { k: \"int\", c: \"string\" }".into() }];
        for c in ["busy", "other", "third"] {
            let m = if c == "busy" { busy_n } else { 3 };
            for i in 0..m {
                l1.push(Op::Cmd { text: format!("STORE t FOR {c} PAYLOAD {}", json!({"k": i, "c": c})) });
            }
        }
        l1.push(Op::Observe { queries: vec!["QUERY t FOR busy".into(), "QUERY t FOR other".into(), "QUERY t FOR third".into()] });
        let rr = run_lifetimes(&dir, &cfg, 77 + wi as u64, &[LifeSpec { ops: l1, snap: SnapMode::Off, fsmon: false }], false)?;
        if let Some(e) = &rr[0].error {
            return Err(e.clone());
        }
        let mut viol = Vec::new();
        let obs = rr[0].steps.last().unwrap();
        for (qi, (c, m)) in [("busy", busy_n), ("other", 3), ("third", 3)].iter().enumerate() {
            let rep = &obs.replies[qi];
            if rep.rows.len() as i64 != *m {
                viol.push(format!("scoped-read: shards={n} busy lifetime: QUERY t FOR {c} returned {} rows, stored {m}", rep.rows.len()));
            }
            let mut tags: BTreeMap<usize, usize> = BTreeMap::new();
            for id in rep.rows.iter().filter_map(|r| r.get("event_id").and_then(|v| v.as_u64())) {
                *tags.entry(((id >> 12) & 0x3ff) as usize).or_insert(0) += 1;
            }
            if tags.len() > 1 {
                viol.push(format!("split-context: shards={n} context {c:?} with {m} events in one lifetime carries shard tags {tags:?}"));
            }
            if let Some(t) = tags.keys().find(|t| **t >= *n) {
                viol.push(format!("tag-out-of-range: shards={n} context {c:?} carries shard tag {t}"));
            }
        }
        let _ = std::fs::remove_dir_all(&dir);
        Ok((viol, 6))
    });
    let mut by_tag: BTreeMap<String, Vec<String>> = BTreeMap::new();
    let mut judged = 0usize;
    for r in res.iter().chain(busy.iter()) {
        match r {
            Err(e) => {
                eprintln!("MACHINERY: {e}");
                return 2;
            }
            Ok((v, j)) => {
                judged += j;
                for m in v {
                    by_tag.entry(m.split(':').next().unwrap_or("").to_string()).or_default().push(m.clone());
                }
            }
        }
    }
    clear_replays("C12");
    let mut nv = 0;
    for (tag, ms) in &by_tag {
        if kf.is_known("C12", tag) {
            println!("KNOWN-FINDING: property=C12 {tag}: {} [{} observations, e.g. {}]", kf.describe("C12", tag), ms.len(), ms[0].chars().take(200).collect::<String>());
        } else {
            nv += 1;
            let path = write_replay("C12", &json!({"property": "C12", "class": tag, "example": ms[0], "count": ms.len()}));
            println!("VIOLATION property=C12 replay={path}");
            eprintln!("  {} ({} observations)", ms[0].chars().take(300).collect::<String>(), ms.len());
        }
    }
    write_evidence(&Evidence {
        property_id: "C12".into(),
        tier: tier.into(),
        seed: seed(),
        level: "exploration".into(),
        coverage: json!({
            "evaluations": judged,
            "distinct_nontrivial": ctxs.len() * work.len(),
            "rule": format!("{} context ids (all strings of length <= 3 over a 9-symbol alphabet incl. upper/lower case, punctuation and a non-ASCII letter (length 3 thinned in quick), case / whitespace variants, CJK, 1 KB ids) x shard counts 1..8, 11, 12, 16, 300; plus a busy context (more than 4096, thorough 8192, events of one context in one lifetime on 1 and 2 shards: one tag, below the shard count, complete scoped read) x restart kind {{clean shutdown, kill}}: one STORE per context in each of two process lifetimes (different hash seeds), then QUERY FOR each context, REPLAY FOR 40 of them, a second event type stored and read for 60 of them, one unscoped QUERY, and the WAL directories on disk; distinct_nontrivial = (context, shard count, restart) triples", ctxs.len()),
            "samples": ctxs.iter().step_by((ctxs.len() / 10).max(1)).take(10).map(|c| json!(if c.len() > 40 { format!("{}...<{} bytes>", &c.chars().take(20).collect::<String>(), c.len()) } else { c.clone() })).collect::<Vec<_>>(),
            "contexts": ctxs.len(),
            "shard_counts": shard_counts,
            "exhaustive": true,
        }),
        assumptions: vec!["shard of an event = bits 12..22 of its id".into()],
        wall_s: t0.elapsed().as_secs_f64(),
        violations: nv,
    });
    if nv == 0 { 0 } else { 1 }
}
