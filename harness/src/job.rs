//! A *job* is a script executed against one lifetime of the real database in
//! this process. The parent (explorer) generates jobs and judges their results;
//! this interpreter contains no oracle.
use crate::decode::Reply;
use crate::interpose::{self, FsEvent, FsKind};
use crate::sys::{Fmt, Sys, SysConfig};
use serde::{Deserialize, Serialize};
use std::collections::BTreeMap;
use std::path::{Path, PathBuf};
use std::sync::{Arc, Mutex};
use std::time::Duration;

#[derive(Debug, Clone, Copy, PartialEq, Eq, Serialize, Deserialize, Default)]
#[serde(rename_all = "lowercase")]
pub enum SnapMode {
    #[default]
    Off,
    /// before every FS mutation except `write`
    Coarse,
    /// before every FS mutation including each `write`
    Fine,
}

#[derive(Debug, Clone, Serialize, Deserialize)]
#[serde(tag = "op", rename_all = "snake_case")]
pub enum Op {
    /// execute a command line, then wait for quiescence
    Cmd { text: String },
    /// execute a command line without waiting for quiescence afterwards
    CmdNb { text: String },
    /// execute a command line with a given output format and keep the raw bytes (hex)
    CmdRaw { text: String, fmt: Fmt },
    /// execute in a spawned task so that a panic inside parse/dispatch is contained
    CmdIsolated { text: String },
    Barrier,
    Compact { shard: usize },
    CompactAll,
    /// run read-only commands, no barrier in between
    Observe { queries: Vec<String> },
    /// the same, with all queries in flight at once (each in its own task); replies in query order
    ObservePar { queries: Vec<String> },
    /// set the wall clock (epoch ms)
    Clock { ms: i64 },
    Tick { ms: i64 },
    /// arm a trap: the `nth` (0-based) future hit of gate `gate` on `shard`
    /// (and segment `seg` when given) parks the calling task
    Park { gate: String, shard: usize, seg: Option<u64>, nth: usize },
    /// release every parked task and disarm all traps, then barrier
    Resume,
    /// spawn a compaction round in the background (so that it can be parked)
    CompactBg { shard: usize },
    /// graceful shutdown: flush_all + shutdown_all
    Shutdown,
    /// flush every shard, one after the other
    FlushSeq,
    /// graceful shutdown with shards flushed one after the other
    ShutdownSeq,
    /// take a crash snapshot of the tree now (between commands)
    Snap,
    /// the process is killed here: the tree as it is now is what the next lifetime finds (writes made
    /// while the process is torn down - user-space buffers flushed by destructors - are discarded)
    KillPoint,
    /// one input line on connection `conn` through the TCP listener's authentication gate,
    /// parse and dispatch; `{TOKEN:n}` is replaced by the last session token issued on connection n
    Serve { conn: usize, line: String },
}

#[derive(Debug, Clone, Serialize, Deserialize, Default)]
#[serde(default)]
pub struct Job {
    pub root: String,
    pub cfg: SysConfig,
    pub entropy: u64,
    /// initial wall clock (epoch ms); advanced by `clock_step_ms` before every op
    pub clock_ms: i64,
    pub clock_step_ms: i64,
    pub snap: SnapMode,
    /// directory receiving crash snapshots (outside `root`)
    pub snap_dir: String,
    /// only snapshot while executing ops with index >= this
    pub snap_from_op: usize,
    pub fsmon: bool,
    pub ops: Vec<Op>,
    /// log every FS event (path, kind) in the result
    pub fs_log: bool,
}

#[derive(Debug, Clone, Serialize, Deserialize, Default)]
pub struct StepResult {
    pub op: usize,
    pub replies: Vec<Reply>,
    /// command could not complete within the virtual horizon
    pub blocked: bool,
    pub note: String,
    pub raw_hex: Option<String>,
    /// live segment list per shard after this op
    pub live: Vec<Vec<String>>,
}

#[derive(Debug, Clone, Serialize, Deserialize, Default)]
pub struct SnapMeta {
    pub n: usize,
    pub op: usize,
    pub seq: u64,
    pub kind: String,
    pub path: String,
    pub digest: String,
    /// identical to the previous kept snapshot: no copy kept
    pub dup: bool,
}

#[derive(Debug, Clone, Serialize, Deserialize, Default)]
pub struct GateHit {
    pub op: usize,
    pub gate: String,
    pub shard: usize,
    pub seg: u64,
    pub parked: bool,
    /// number of FS events observed before this gate was reached
    pub fs_seq: u64,
}

#[derive(Debug, Clone, Serialize, Deserialize, Default)]
pub struct JobResult {
    pub steps: Vec<StepResult>,
    pub snaps: Vec<SnapMeta>,
    pub gates: Vec<GateHit>,
    pub fs_events: u64,
    pub fs_log: Vec<(usize, String, String)>,
    pub monitor: Vec<String>,
    pub monitor_states: u64,
    pub monitor_checks: u64,
    /// "shard-N/label" -> digest of the segment directory when it was first seen published
    pub manifests: BTreeMap<String, String>,
    pub live_segments: Vec<Vec<String>>,
    pub entropy_requests: u64,
    pub writable_maps: u64,
    pub error: Option<String>,
}

struct Trap {
    gate: String,
    shard: usize,
    seg: Option<u64>,
    skip: usize,
}

#[derive(Default)]
struct GateCtl {
    traps: Vec<Trap>,
    parked: Vec<tokio::sync::oneshot::Sender<()>>,
    log: Vec<GateHit>,
    cur_op: usize,
}

#[derive(Default)]
struct SnapCtl {
    mode: SnapMode,
    dir: PathBuf,
    root: PathBuf,
    cur_op: usize,
    from_op: usize,
    metas: Vec<SnapMeta>,
    last_digest: String,
    fs_log: Vec<(usize, String, String)>,
    log_enabled: bool,
    monitor: Option<crate::fsmon::Monitor>,
}

pub fn tree_digest(root: &Path) -> String {
    use sha2::{Digest, Sha256};
    let mut files: Vec<PathBuf> = Vec::new();
    fn walk(p: &Path, out: &mut Vec<PathBuf>) {
        if let Ok(rd) = std::fs::read_dir(p) {
            for e in rd.flatten() {
                let path = e.path();
                let ft = match e.file_type() {
                    Ok(t) => t,
                    Err(_) => continue,
                };
                if ft.is_dir() {
                    out.push(path.clone());
                    walk(&path, out);
                } else {
                    out.push(path);
                }
            }
        }
    }
    walk(root, &mut files);
    files.sort();
    let mut h = Sha256::new();
    for f in files {
        let rel = f.strip_prefix(root).unwrap().to_string_lossy().into_owned();
        if rel == "config.toml" || rel == ".verif_alltime" || rel.starts_with("logs") {
            continue;
        }
        h.update(rel.as_bytes());
        h.update([0u8]);
        if f.is_dir() {
            h.update(b"<dir>");
        } else if let Ok(data) = std::fs::read(&f) {
            h.update((data.len() as u64).to_le_bytes());
            h.update(&data);
        }
        h.update([1u8]);
    }
    hex::encode(&h.finalize()[..12])
}

pub fn copy_tree(from: &Path, to: &Path) -> std::io::Result<()> {
    std::fs::create_dir_all(to)?;
    for e in std::fs::read_dir(from)? {
        let e = e?;
        let ft = e.file_type()?;
        let dst = to.join(e.file_name());
        if ft.is_dir() {
            copy_tree(&e.path(), &dst)?;
        } else if ft.is_file() {
            // a file may vanish between listing and copying only if another
            // thread mutates the tree; the FS lock excludes that during snapshots
            std::fs::copy(e.path(), &dst)?;
        }
    }
    Ok(())
}

impl SnapCtl {
    fn on_event(&mut self, ev: &FsEvent) {
        if let Some(m) = self.monitor.as_mut() {
            m.on_event(ev, self.cur_op);
        }
        if ev.after {
            if self.log_enabled {
                self.fs_log.push((self.cur_op, format!("{:?}", ev.kind), ev.path.clone()));
            }
            return;
        }
        if self.cur_op < self.from_op {
            return;
        }
        let take = match (&self.mode, &ev.kind) {
            (SnapMode::Off, _) => false,
            (_, FsKind::Fsync) => false,
            (SnapMode::Coarse, FsKind::Write { .. }) => false,
            _ => true,
        };
        if take {
            self.take(format!("{:?}", ev.kind), ev.path.clone(), ev.seq);
        }
    }

    fn take(&mut self, kind: String, path: String, seq: u64) {
        let n = self.metas.len();
        let digest = tree_digest(&self.root);
        let dup = digest == self.last_digest;
        if !dup {
            let dst = self.dir.join(format!("{n}"));
            if let Err(e) = copy_tree(&self.root, &dst) {
                eprintln!("snapshot copy failed: {e}");
                std::process::exit(2);
            }
            self.last_digest = digest.clone();
        }
        self.metas.push(SnapMeta { n, op: self.cur_op, seq, kind, path, digest, dup });
    }
}

pub fn run_job(job: Job) -> JobResult {
    // `root`: the path string the engine sees; `real_root`: where the bytes are (the FS
    // interposer resolves descriptors through /proc, which yields resolved paths)
    let root = PathBuf::from(&job.root);
    std::fs::create_dir_all(&root).unwrap();
    let real_root = root.canonicalize().unwrap();
    let cfg_path = job.cfg.write(&root);
    // CONFIG is a process-global Lazy read from this variable on first use.
    unsafe { std::env::set_var("SNELDB_CONFIG", &cfg_path) };
    interpose::pin_entropy(job.entropy.wrapping_mul(0x9E3779B97F4A7C15) | 1);
    interpose::set_clock_ms(job.clock_ms);

    let snapctl = Arc::new(Mutex::new(SnapCtl {
        mode: job.snap,
        dir: PathBuf::from(&job.snap_dir),
        root: real_root.clone(),
        from_op: job.snap_from_op,
        log_enabled: job.fs_log,
        monitor: if job.fsmon { Some(crate::fsmon::Monitor::new(&real_root, job.cfg.shards)) } else { None },
        ..Default::default()
    }));
    if job.snap != SnapMode::Off || job.fsmon || job.fs_log {
        let sc = snapctl.clone();
        interpose::fs_watch(real_root.to_str().unwrap(), Box::new(move |ev| sc.lock().unwrap().on_event(ev)));
        if root != real_root {
            interpose::fs_alias(root.to_str().unwrap());
        }
    }

    let gatectl = Arc::new(Mutex::new(GateCtl::default()));
    {
        let gc = gatectl.clone();
        snel_db::verif::set_gate_handler(Some(Arc::new(move |name, shard, seg| {
            let mut g = gc.lock().unwrap();
            let mut hit = GateHit { op: g.cur_op, gate: name.to_string(), shard, seg, parked: false, fs_seq: interpose::fs_seq() };
            let mut fut = None;
            if let Some(pos) = g
                .traps
                .iter()
                .position(|t| t.gate == name && t.shard == shard && t.seg.map_or(true, |s| s == seg))
            {
                if g.traps[pos].skip == 0 {
                    g.traps.remove(pos);
                    let (tx, rx) = tokio::sync::oneshot::channel::<()>();
                    g.parked.push(tx);
                    hit.parked = true;
                    fut = Some(Box::pin(async move {
                        let _ = rx.await;
                    }) as snel_db::verif::GateFuture);
                } else {
                    g.traps[pos].skip -= 1;
                }
            }
            g.log.push(hit);
            fut
        })));
    }

    // remember where the last panic was raised (reported with the job's error)
    static LAST_PANIC_AT: std::sync::Mutex<String> = std::sync::Mutex::new(String::new());
    {
        let prev = std::panic::take_hook();
        std::panic::set_hook(Box::new(move |info| {
            if let Some(l) = info.location() {
                if let Ok(mut g) = LAST_PANIC_AT.lock() {
                    *g = format!("{}:{}", l.file(), l.line());
                }
            }
            prev(info);
        }));
    }
    let rt = tokio::runtime::Builder::new_current_thread()
        .enable_all()
        // one blocking-pool thread: spawn_blocking / tokio::fs work is executed in
        // submission order, so per-thread hash seeds and entropy use are reproducible
        .max_blocking_threads(1)
        .start_paused(true)
        .build()
        .unwrap();

    let mut result = JobResult::default();
    let job2 = job.clone();
    let sc = snapctl.clone();
    let gc = gatectl.clone();
    let root2 = root.clone();
    let outcome = std::panic::catch_unwind(std::panic::AssertUnwindSafe(|| {
        rt.block_on(async move { interpret(job2, &root2, sc, gc).await })
    }));
    match outcome {
        Ok((steps, live)) => {
            result.steps = steps;
            result.live_segments = live;
        }
        Err(p) => {
            let msg = p
                .downcast_ref::<String>()
                .cloned()
                .or_else(|| p.downcast_ref::<&str>().map(|s| s.to_string()))
                .unwrap_or_else(|| "panic".into());
            result.error = Some(format!("panic in job: {msg} [at {}]", LAST_PANIC_AT.lock().map(|g| g.clone()).unwrap_or_default()));
        }
    }
    interpose::fs_unwatch();
    snel_db::verif::set_gate_handler(None);
    let mut sc = snapctl.lock().unwrap();
    result.snaps = std::mem::take(&mut sc.metas);
    result.fs_log = std::mem::take(&mut sc.fs_log);
    if let Some(m) = sc.monitor.as_mut() {
        result.monitor = m.violations.clone();
        result.monitor_states = m.states.len() as u64;
        result.monitor_checks = m.checks;
        result.manifests = m.ever.clone();
    }
    result.gates = std::mem::take(&mut gatectl.lock().unwrap().log);
    result.fs_events = interpose::FS_EVENTS.load(std::sync::atomic::Ordering::SeqCst);
    result.entropy_requests = interpose::ENTROPY_REQUESTS.load(std::sync::atomic::Ordering::SeqCst);
    result.writable_maps = interpose::WRITABLE_MAPS.load(std::sync::atomic::Ordering::SeqCst);
    // let blocking-pool work that nobody awaits (fire-and-forget spawn_blocking)
    // run to completion before the process goes away: a lifetime must not end in
    // the middle of a file write unless a crash point says so
    rt.shutdown_timeout(Duration::from_secs(20));
    result
}

const HORIZON: Duration = Duration::from_secs(10);

async fn interpret(
    job: Job,
    root: &Path,
    snapctl: Arc<Mutex<SnapCtl>>,
    gatectl: Arc<Mutex<GateCtl>>,
) -> (Vec<StepResult>, Vec<Vec<String>>) {
    let sys = Arc::new(Sys::start(job.cfg.clone(), root).await);
    let mut steps = Vec::new();
    let mut bg: Vec<tokio::task::JoinHandle<Result<bool, String>>> = Vec::new();
    let mut conns: BTreeMap<usize, snel_db::frontend::tcp::listener::verif_api::GateState> = BTreeMap::new();
    let mut tokens: BTreeMap<usize, String> = BTreeMap::new();
    if let Some(m) = snapctl.lock().unwrap().monitor.as_mut() {
        m.attach(sys.shared.iter().map(|s| s.segment_ids.clone()).collect());
    }
    for (i, op) in job.ops.iter().enumerate() {
        snapctl.lock().unwrap().cur_op = i;
        gatectl.lock().unwrap().cur_op = i;
        if job.clock_step_ms != 0 {
            interpose::advance_clock_ms(job.clock_step_ms);
        }
        let mut st = StepResult { op: i, ..Default::default() };
        match op {
            Op::Cmd { text } | Op::CmdNb { text } => {
                match tokio::time::timeout(HORIZON, sys.exec(text)).await {
                    Ok(r) => st.replies.push(r),
                    Err(_) => st.blocked = true,
                }
                if matches!(op, Op::Cmd { .. }) {
                    sys.barrier().await;
                }
            }
            Op::CmdRaw { text, fmt } => {
                match tokio::time::timeout(HORIZON, sys.exec_raw(text, *fmt)).await {
                    Ok(Ok(bytes)) => st.raw_hex = Some(hex::encode(bytes)),
                    Ok(Err(e)) => st.note = e,
                    Err(_) => st.blocked = true,
                }
            }
            Op::CmdIsolated { text } => {
                let s2 = sys.clone();
                let t2 = text.clone();
                let h = tokio::spawn(async move { s2.exec(&t2).await });
                match tokio::time::timeout(HORIZON, h).await {
                    Ok(Ok(r)) => st.replies.push(r),
                    Ok(Err(e)) => {
                        st.note = if e.is_panic() {
                            let p = e.into_panic();
                            let m = p.downcast_ref::<String>().cloned().or_else(|| p.downcast_ref::<&str>().map(|s| s.to_string())).unwrap_or_else(|| "panic".into());
                            format!("panic: {m}")
                        } else {
                            "task cancelled".to_string()
                        }
                    }
                    Err(_) => st.blocked = true,
                }
                sys.barrier().await;
            }
            Op::Barrier => sys.barrier().await,
            Op::Compact { shard } => match tokio::time::timeout(HORIZON, sys.compact(*shard)).await {
                Ok(Ok(b)) => st.note = format!("plans={b}"),
                Ok(Err(e)) => st.note = format!("error={e}"),
                Err(_) => st.blocked = true,
            },
            Op::CompactAll => match tokio::time::timeout(HORIZON, sys.compact_all()).await {
                Ok(Ok(n)) => st.note = format!("rounds={n}"),
                Ok(Err(e)) => st.note = format!("error={e}"),
                Err(_) => st.blocked = true,
            },
            Op::CompactBg { shard } => {
                let s2 = sys.clone();
                let sh = *shard;
                bg.push(tokio::spawn(async move { s2.compact(sh).await }));
                sys.barrier().await;
            }
            Op::Observe { queries } => {
                for q in queries {
                    match tokio::time::timeout(HORIZON, sys.exec(q)).await {
                        Ok(r) => st.replies.push(r),
                        Err(_) => {
                            st.blocked = true;
                            st.replies.push(Reply::failed("blocked".into()));
                        }
                    }
                }
            }
            Op::ObservePar { queries } => {
                // gates trapped from here on belong to the readers: they are released once every
                // reader has run as far as it can, so that one reader sits at its gate (holding
                // what it holds there) while the others start
                let parked_before = gatectl.lock().unwrap().parked.len();
                let mut hs = Vec::new();
                for q in queries {
                    let s2 = sys.clone();
                    let q2 = q.clone();
                    hs.push(tokio::spawn(async move { tokio::time::timeout(HORIZON, s2.exec(&q2)).await }));
                }
                sys.barrier().await;
                let mine: Vec<_> = {
                    let mut g = gatectl.lock().unwrap();
                    g.traps.retain(|t| t.gate != "read.passive_locked");
                    let keep = parked_before.min(g.parked.len());
                    g.parked.split_off(keep)
                };
                st.note = format!("readers_released={}", mine.len());
                for tx in mine {
                    let _ = tx.send(());
                }
                for h in hs {
                    match h.await {
                        Ok(Ok(r)) => st.replies.push(r),
                        Ok(Err(_)) => {
                            st.blocked = true;
                            st.replies.push(Reply::failed("blocked".into()));
                        }
                        Err(e) => st.replies.push(Reply::failed(format!("read task failed: {e}"))),
                    }
                }
            }
            Op::Clock { ms } => interpose::set_clock_ms(*ms),
            Op::Tick { ms } => interpose::advance_clock_ms(*ms),
            Op::Park { gate, shard, seg, nth } => {
                gatectl.lock().unwrap().traps.push(Trap {
                    gate: gate.clone(),
                    shard: *shard,
                    seg: *seg,
                    skip: *nth,
                });
            }
            Op::Resume => {
                let parked: Vec<_> = {
                    let mut g = gatectl.lock().unwrap();
                    g.traps.clear();
                    std::mem::take(&mut g.parked)
                };
                st.note = format!("released={}", parked.len());
                for tx in parked {
                    let _ = tx.send(());
                }
                sys.barrier().await;
                for h in bg.drain(..) {
                    match tokio::time::timeout(HORIZON, h).await {
                        Ok(Ok(Ok(_))) => {}
                        Ok(Ok(Err(e))) => st.note.push_str(&format!(" bg_error={e}")),
                        Ok(Err(e)) => st.note.push_str(&format!(" bg_join={e}")),
                        Err(_) => st.note.push_str(" bg_blocked"),
                    }
                }
                sys.barrier().await;
            }
            Op::Shutdown => match tokio::time::timeout(HORIZON, sys.shutdown()).await {
                Ok(errs) => {
                    if !errs.is_empty() {
                        st.note = format!("errors={errs:?}");
                    }
                }
                Err(_) => st.blocked = true,
            },
            Op::FlushSeq => match tokio::time::timeout(HORIZON, sys.flush_sequential()).await {
                Ok(errs) => {
                    if !errs.is_empty() {
                        st.note = format!("errors={errs:?}");
                    }
                }
                Err(_) => st.blocked = true,
            },
            Op::ShutdownSeq => match tokio::time::timeout(HORIZON, sys.shutdown_sequential()).await {
                Ok(errs) => {
                    if !errs.is_empty() {
                        st.note = format!("errors={errs:?}");
                    }
                }
                Err(_) => st.blocked = true,
            },
            Op::Serve { conn, line } => {
                let mut text = line.clone();
                for (c, t) in &tokens {
                    text = text.replace(&format!("{{TOKEN:{c}}}"), t);
                }
                let gate = conns.entry(*conn).or_insert_with(|| snel_db::frontend::tcp::listener::verif_api::GateState::new(sys.auth.clone(), "127.0.0.1"));
                let s2 = sys.clone();
                match tokio::time::timeout(HORIZON, s2.serve_line(&text, gate)).await {
                    Ok((reply, user, token)) => {
                        st.note = format!("user={}", user.unwrap_or_default());
                        if let Some(t) = token {
                            tokens.insert(*conn, t);
                        }
                        st.replies.push(reply);
                    }
                    Err(_) => st.blocked = true,
                }
                sys.barrier().await;
            }
            Op::KillPoint => {
                let to = PathBuf::from(&job.snap_dir).join("killpoint");
                let root = root.to_path_buf();
                interpose::fs_quiet(|| {
                    let _ = std::fs::remove_dir_all(&to);
                    if let Err(e) = copy_tree(&root, &to) {
                        st.note = format!("killpoint copy failed: {e}");
                    }
                });
            }
            Op::Snap => {
                let g = interpose::fs_quiet(|| {
                    let mut sc = snapctl.lock().unwrap();
                    if sc.mode == SnapMode::Off {
                        sc.mode = SnapMode::Coarse;
                        sc.take("Snap".into(), String::new(), 0);
                        sc.mode = SnapMode::Off;
                    } else {
                        sc.take("Snap".into(), String::new(), 0);
                    }
                });
                let _ = g;
            }
        }
        st.live = (0..job.cfg.shards).map(|s| sys.live_segments(s)).collect();
        steps.push(st);
    }
    let live = (0..job.cfg.shards).map(|s| sys.live_segments(s)).collect();
    (steps, live)
}

#[allow(dead_code)]
pub fn describe(ops: &[Op]) -> Vec<String> {
    ops.iter().map(|o| serde_json::to_string(o).unwrap()).collect()
}

#[allow(dead_code)]
pub type Counts = BTreeMap<String, u64>;
