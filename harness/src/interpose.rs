//! libc interposition: the harness executable *defines* a number of libc
//! symbols. Because they live in the executable itself they pre-empt libc for
//! every call made from Rust code linked into it (std::fs, tokio::fs on the
//! blocking pool, the getrandom crate, std's RandomState seeding, SystemTime).
//!
//! Three things are owned this way:
//!   * entropy   (getrandom / getentropy / syscall(SYS_getrandom))
//!   * wall clock (clock_gettime(CLOCK_REALTIME*), optional sched_yield tick)
//!   * file-system mutations under a watched root (observer callback, used by
//!     the crash-point snapshotter and the published-segment monitor)
#![allow(clippy::missing_safety_doc)]

use libc::{c_char, c_int, c_long, c_uint, c_void, mode_t, off_t, size_t, ssize_t};
use std::cell::Cell;
use std::ffi::CStr;
use std::sync::atomic::{AtomicBool, AtomicI64, AtomicU64, Ordering};
use std::sync::Mutex;

// ---------------------------------------------------------------------------
// real symbol lookup
// ---------------------------------------------------------------------------

macro_rules! real {
    ($name:literal, $ty:ty) => {{
        static CACHE: std::sync::atomic::AtomicUsize = std::sync::atomic::AtomicUsize::new(0);
        let mut p = CACHE.load(Ordering::Relaxed);
        if p == 0 {
            p = unsafe { libc::dlsym(libc::RTLD_NEXT, concat!($name, "\0").as_ptr() as *const c_char) }
                as usize;
            if p == 0 {
                eprintln!("interpose: cannot resolve {}", $name);
                std::process::abort();
            }
            CACHE.store(p, Ordering::Relaxed);
        }
        unsafe { std::mem::transmute::<usize, $ty>(p) }
    }};
}

// ---------------------------------------------------------------------------
// entropy
// ---------------------------------------------------------------------------

static ENTROPY_STATE: AtomicU64 = AtomicU64::new(0); // 0 = not pinned, else the seed
static ENTROPY_EPOCH: AtomicU64 = AtomicU64::new(0);
static ENTROPY_NEXT_ORDINAL: AtomicU64 = AtomicU64::new(0);
pub static ENTROPY_REQUESTS: AtomicU64 = AtomicU64::new(0);

thread_local! {
    /// (epoch, xorshift state): every thread draws from its own stream, seeded by
    /// (seed, order in which threads first asked for entropy), so that two threads
    /// consuming entropy concurrently cannot perturb each other
    static ENTROPY_TLS: Cell<(u64, u64)> = const { Cell::new((0, 0)) };
}

pub fn pin_entropy(seed: u64) {
    ENTROPY_STATE.store(seed | 1, Ordering::SeqCst);
    ENTROPY_NEXT_ORDINAL.store(0, Ordering::SeqCst);
    ENTROPY_EPOCH.fetch_add(1, Ordering::SeqCst);
}

fn entropy_fill(buf: *mut u8, len: usize) {
    ENTROPY_REQUESTS.fetch_add(1, Ordering::Relaxed);
    let out = unsafe { std::slice::from_raw_parts_mut(buf, len) };
    let epoch = ENTROPY_EPOCH.load(Ordering::SeqCst);
    let (e, mut x) = ENTROPY_TLS.with(|c| c.get());
    if e != epoch || x == 0 {
        let ord = ENTROPY_NEXT_ORDINAL.fetch_add(1, Ordering::SeqCst);
        x = (ENTROPY_STATE.load(Ordering::SeqCst) ^ (ord + 1).wrapping_mul(0x9E3779B97F4A7C15)) | 1;
    }
    for b in out.iter_mut() {
        // xorshift64*
        x ^= x >> 12;
        x ^= x << 25;
        x ^= x >> 27;
        *b = (x.wrapping_mul(0x2545F4914F6CDD1D) >> 56) as u8;
    }
    ENTROPY_TLS.with(|c| c.set((epoch, x)));
}

#[unsafe(no_mangle)]
pub unsafe extern "C" fn getrandom(buf: *mut c_void, len: size_t, flags: c_uint) -> ssize_t {
    if ENTROPY_STATE.load(Ordering::Relaxed) != 0 {
        entropy_fill(buf as *mut u8, len);
        return len as ssize_t;
    }
    let f = real!("getrandom", unsafe extern "C" fn(*mut c_void, size_t, c_uint) -> ssize_t);
    unsafe { f(buf, len, flags) }
}

#[unsafe(no_mangle)]
pub unsafe extern "C" fn getentropy(buf: *mut c_void, len: size_t) -> c_int {
    if ENTROPY_STATE.load(Ordering::Relaxed) != 0 {
        entropy_fill(buf as *mut u8, len);
        return 0;
    }
    let f = real!("getentropy", unsafe extern "C" fn(*mut c_void, size_t) -> c_int);
    unsafe { f(buf, len) }
}

/// `syscall` is variadic in C; on x86_64 SysV a fixed 7-integer-argument
/// function reads exactly the registers / stack slot a variadic callee would.
#[unsafe(no_mangle)]
pub unsafe extern "C" fn syscall(
    num: c_long,
    a1: c_long,
    a2: c_long,
    a3: c_long,
    a4: c_long,
    a5: c_long,
    a6: c_long,
) -> c_long {
    if num == libc::SYS_getrandom && ENTROPY_STATE.load(Ordering::Relaxed) != 0 {
        entropy_fill(a1 as *mut u8, a2 as usize);
        return a2;
    }
    let f = real!(
        "syscall",
        unsafe extern "C" fn(c_long, c_long, c_long, c_long, c_long, c_long, c_long) -> c_long
    );
    unsafe { f(num, a1, a2, a3, a4, a5, a6) }
}

// ---------------------------------------------------------------------------
// wall clock
// ---------------------------------------------------------------------------

static VCLOCK_NS: AtomicI64 = AtomicI64::new(-1); // -1 = real clock
static YIELD_TICK_NS: AtomicI64 = AtomicI64::new(0);
pub static CLOCK_READS: AtomicU64 = AtomicU64::new(0);

pub fn set_clock_ms(ms: i64) {
    VCLOCK_NS.store(ms * 1_000_000, Ordering::SeqCst);
}
pub fn clock_ms() -> i64 {
    VCLOCK_NS.load(Ordering::SeqCst) / 1_000_000
}
pub fn advance_clock_ms(ms: i64) {
    VCLOCK_NS.fetch_add(ms * 1_000_000, Ordering::SeqCst);
}
/// When non-zero every `sched_yield` advances the virtual clock (makes the
/// id generator's spin-wait visible instead of infinite).
pub fn set_yield_tick_ms(ms: i64) {
    YIELD_TICK_NS.store(ms * 1_000_000, Ordering::SeqCst);
}

#[unsafe(no_mangle)]
pub unsafe extern "C" fn clock_gettime(clk: libc::clockid_t, ts: *mut libc::timespec) -> c_int {
    let v = VCLOCK_NS.load(Ordering::Relaxed);
    if v >= 0 && (clk == libc::CLOCK_REALTIME || clk == libc::CLOCK_REALTIME_COARSE) {
        CLOCK_READS.fetch_add(1, Ordering::Relaxed);
        unsafe {
            (*ts).tv_sec = v / 1_000_000_000;
            (*ts).tv_nsec = v % 1_000_000_000;
        }
        return 0;
    }
    let f = real!("clock_gettime", unsafe extern "C" fn(libc::clockid_t, *mut libc::timespec) -> c_int);
    unsafe { f(clk, ts) }
}

#[unsafe(no_mangle)]
pub unsafe extern "C" fn sched_yield() -> c_int {
    let t = YIELD_TICK_NS.load(Ordering::Relaxed);
    if t > 0 && VCLOCK_NS.load(Ordering::Relaxed) >= 0 {
        VCLOCK_NS.fetch_add(t, Ordering::SeqCst);
        return 0;
    }
    let f = real!("sched_yield", unsafe extern "C" fn() -> c_int);
    unsafe { f() }
}

// ---------------------------------------------------------------------------
// file-system observer
// ---------------------------------------------------------------------------

#[derive(Debug, Clone, PartialEq, Eq)]
pub enum FsKind {
    /// open() that may create and/or truncate and/or write
    Open { create: bool, trunc: bool, write: bool },
    Write { len: usize },
    Rename { to: String },
    Unlink,
    Mkdir,
    Rmdir,
    Truncate { len: i64 },
    Link { to: String },
    Fsync,
}

#[derive(Debug, Clone)]
pub struct FsEvent {
    pub seq: u64,
    pub kind: FsKind,
    pub path: String,
    /// false = about to happen (state on disk is the state *before* it),
    /// true = has returned (`ret` valid)
    pub after: bool,
    pub ret: i64,
}

pub type FsObserver = Box<dyn FnMut(&FsEvent) + Send>;

static FS_ACTIVE: AtomicBool = AtomicBool::new(false);
static FS_SEQ: AtomicU64 = AtomicU64::new(0);
static FS_ROOT: Mutex<String> = Mutex::new(String::new());
/// the same directory as FS_ROOT under another name (a symlinked prefix); path arguments
/// that start with it are rewritten to FS_ROOT
static FS_ALIAS: Mutex<String> = Mutex::new(String::new());
static FS_OBSERVER: Mutex<Option<FsObserver>> = Mutex::new(None);
/// serialises "before-callback, real call, after-callback" across threads
static FS_LOCK: Mutex<()> = Mutex::new(());
pub static FS_EVENTS: AtomicU64 = AtomicU64::new(0);

thread_local! {
    static REENTRANT: Cell<bool> = const { Cell::new(false) };
}

pub fn fs_seq() -> u64 {
    FS_SEQ.load(Ordering::SeqCst)
}

pub fn fs_alias(alias: &str) {
    *FS_ALIAS.lock().unwrap() = alias.trim_end_matches('/').to_string();
}

fn dealias(p: String) -> String {
    let alias = FS_ALIAS.lock().unwrap_or_else(|e| e.into_inner());
    if !alias.is_empty() && p.starts_with(alias.as_str()) && p.as_bytes().get(alias.len()).map_or(true, |c| *c == b'/') {
        let root = FS_ROOT.lock().unwrap_or_else(|e| e.into_inner());
        return format!("{}{}", root, &p[alias.len()..]);
    }
    p
}

pub fn fs_watch(root: &str, obs: FsObserver) {
    *FS_ROOT.lock().unwrap() = root.trim_end_matches('/').to_string();
    *FS_OBSERVER.lock().unwrap() = Some(obs);
    FS_ACTIVE.store(true, Ordering::SeqCst);
}

pub fn fs_unwatch() -> Option<FsObserver> {
    FS_ACTIVE.store(false, Ordering::SeqCst);
    let _g = FS_LOCK.lock().unwrap_or_else(|e| e.into_inner());
    FS_OBSERVER.lock().unwrap().take()
}

/// run `f` with interposition disabled on this thread
pub fn fs_quiet<T>(f: impl FnOnce() -> T) -> T {
    let prev = REENTRANT.with(|r| r.replace(true));
    let out = f();
    REENTRANT.with(|r| r.set(prev));
    out
}

fn watching() -> bool {
    FS_ACTIVE.load(Ordering::Relaxed) && !REENTRANT.with(|r| r.get())
}

fn abs_path(dirfd: c_int, p: *const c_char) -> Option<String> {
    if p.is_null() {
        return None;
    }
    let s = unsafe { CStr::from_ptr(p) }.to_string_lossy().into_owned();
    if s.starts_with('/') {
        return Some(dealias(normalize(&s)));
    }
    let base = if dirfd == libc::AT_FDCWD {
        std::env::current_dir().ok()?.to_string_lossy().into_owned()
    } else {
        fd_path(dirfd)?
    };
    Some(dealias(normalize(&format!("{}/{}", base, s))))
}

fn normalize(p: &str) -> String {
    let mut out: Vec<&str> = Vec::new();
    for c in p.split('/') {
        match c {
            "" | "." => {}
            ".." => {
                out.pop();
            }
            x => out.push(x),
        }
    }
    format!("/{}", out.join("/"))
}

fn fd_path(fd: c_int) -> Option<String> {
    let link = format!("/proc/self/fd/{}\0", fd);
    let mut buf = [0u8; 4096];
    let n = unsafe { libc::readlink(link.as_ptr() as *const c_char, buf.as_mut_ptr() as *mut c_char, buf.len()) };
    if n <= 0 {
        return None;
    }
    Some(String::from_utf8_lossy(&buf[..n as usize]).into_owned())
}

fn under_root(p: &str) -> bool {
    let root = FS_ROOT.lock().unwrap_or_else(|e| e.into_inner());
    !root.is_empty() && p.starts_with(root.as_str()) && p.as_bytes().get(root.len()).map_or(true, |c| *c == b'/')
}

fn observe<T: Into<i64> + Copy>(kind: FsKind, path: String, real_call: impl FnOnce() -> T) -> T {
    let _g = FS_LOCK.lock().unwrap_or_else(|e| e.into_inner());
    let seq = FS_SEQ.fetch_add(1, Ordering::SeqCst);
    FS_EVENTS.fetch_add(1, Ordering::Relaxed);
    let mut ev = FsEvent { seq, kind, path, after: false, ret: 0 };
    REENTRANT.with(|r| r.set(true));
    if let Some(obs) = FS_OBSERVER.lock().unwrap_or_else(|e| e.into_inner()).as_mut() {
        obs(&ev);
    }
    REENTRANT.with(|r| r.set(false));
    let ret = real_call();
    let errno_saved = unsafe { *libc::__errno_location() };
    ev.after = true;
    ev.ret = ret.into();
    REENTRANT.with(|r| r.set(true));
    if let Some(obs) = FS_OBSERVER.lock().unwrap_or_else(|e| e.into_inner()).as_mut() {
        obs(&ev);
    }
    REENTRANT.with(|r| r.set(false));
    unsafe { *libc::__errno_location() = errno_saved };
    ret
}

fn open_kind(flags: c_int) -> Option<FsKind> {
    let acc = flags & libc::O_ACCMODE;
    let write = acc == libc::O_WRONLY || acc == libc::O_RDWR;
    let create = flags & libc::O_CREAT != 0;
    let trunc = flags & libc::O_TRUNC != 0;
    if write || create || trunc {
        Some(FsKind::Open { create, trunc, write })
    } else {
        None
    }
}

type OpenFn = unsafe extern "C" fn(*const c_char, c_int, mode_t) -> c_int;
type OpenAtFn = unsafe extern "C" fn(c_int, *const c_char, c_int, mode_t) -> c_int;

fn do_open(real: OpenFn, path: *const c_char, flags: c_int, mode: mode_t) -> c_int {
    if watching() {
        if let (Some(kind), Some(p)) = (open_kind(flags), abs_path(libc::AT_FDCWD, path)) {
            if under_root(&p) {
                return observe(kind, p, || unsafe { real(path, flags, mode) });
            }
        }
    }
    unsafe { real(path, flags, mode) }
}

#[unsafe(no_mangle)]
pub unsafe extern "C" fn open(path: *const c_char, flags: c_int, mode: mode_t) -> c_int {
    do_open(real!("open", OpenFn), path, flags, mode)
}
#[unsafe(no_mangle)]
pub unsafe extern "C" fn open64(path: *const c_char, flags: c_int, mode: mode_t) -> c_int {
    do_open(real!("open64", OpenFn), path, flags, mode)
}
#[unsafe(no_mangle)]
pub unsafe extern "C" fn creat(path: *const c_char, mode: mode_t) -> c_int {
    do_open(real!("open64", OpenFn), path, libc::O_CREAT | libc::O_WRONLY | libc::O_TRUNC, mode)
}

fn do_openat(real: OpenAtFn, dirfd: c_int, path: *const c_char, flags: c_int, mode: mode_t) -> c_int {
    if watching() {
        if let (Some(kind), Some(p)) = (open_kind(flags), abs_path(dirfd, path)) {
            if under_root(&p) {
                return observe(kind, p, || unsafe { real(dirfd, path, flags, mode) });
            }
        }
    }
    unsafe { real(dirfd, path, flags, mode) }
}
#[unsafe(no_mangle)]
pub unsafe extern "C" fn openat(dirfd: c_int, path: *const c_char, flags: c_int, mode: mode_t) -> c_int {
    do_openat(real!("openat", OpenAtFn), dirfd, path, flags, mode)
}
#[unsafe(no_mangle)]
pub unsafe extern "C" fn openat64(dirfd: c_int, path: *const c_char, flags: c_int, mode: mode_t) -> c_int {
    do_openat(real!("openat64", OpenAtFn), dirfd, path, flags, mode)
}

fn fd_watched(fd: c_int) -> Option<String> {
    if fd <= 2 || !watching() {
        return None;
    }
    let p = fd_path(fd)?;
    if p.starts_with('/') && under_root(&p) { Some(p) } else { None }
}

#[unsafe(no_mangle)]
pub unsafe extern "C" fn write(fd: c_int, buf: *const c_void, n: size_t) -> ssize_t {
    let real = real!("write", unsafe extern "C" fn(c_int, *const c_void, size_t) -> ssize_t);
    if let Some(p) = fd_watched(fd) {
        return observe(FsKind::Write { len: n }, p, || unsafe { real(fd, buf, n) as i64 }) as ssize_t;
    }
    unsafe { real(fd, buf, n) }
}

#[unsafe(no_mangle)]
pub unsafe extern "C" fn pwrite64(fd: c_int, buf: *const c_void, n: size_t, off: off_t) -> ssize_t {
    let real = real!("pwrite64", unsafe extern "C" fn(c_int, *const c_void, size_t, off_t) -> ssize_t);
    if let Some(p) = fd_watched(fd) {
        return observe(FsKind::Write { len: n }, p, || unsafe { real(fd, buf, n, off) as i64 }) as ssize_t;
    }
    unsafe { real(fd, buf, n, off) }
}
#[unsafe(no_mangle)]
pub unsafe extern "C" fn pwrite(fd: c_int, buf: *const c_void, n: size_t, off: off_t) -> ssize_t {
    unsafe { pwrite64(fd, buf, n, off) }
}

#[unsafe(no_mangle)]
pub unsafe extern "C" fn writev(fd: c_int, iov: *const libc::iovec, cnt: c_int) -> ssize_t {
    let real = real!("writev", unsafe extern "C" fn(c_int, *const libc::iovec, c_int) -> ssize_t);
    if let Some(p) = fd_watched(fd) {
        let mut len = 0usize;
        for i in 0..cnt as usize {
            len += unsafe { (*iov.add(i)).iov_len };
        }
        return observe(FsKind::Write { len }, p, || unsafe { real(fd, iov, cnt) as i64 }) as ssize_t;
    }
    unsafe { real(fd, iov, cnt) }
}

#[unsafe(no_mangle)]
pub unsafe extern "C" fn rename(from: *const c_char, to: *const c_char) -> c_int {
    let real = real!("rename", unsafe extern "C" fn(*const c_char, *const c_char) -> c_int);
    if watching() {
        if let (Some(a), Some(b)) = (abs_path(libc::AT_FDCWD, from), abs_path(libc::AT_FDCWD, to)) {
            if under_root(&a) || under_root(&b) {
                return observe(FsKind::Rename { to: b }, a, || unsafe { real(from, to) });
            }
        }
    }
    unsafe { real(from, to) }
}

#[unsafe(no_mangle)]
pub unsafe extern "C" fn renameat(fd1: c_int, from: *const c_char, fd2: c_int, to: *const c_char) -> c_int {
    let real = real!("renameat", unsafe extern "C" fn(c_int, *const c_char, c_int, *const c_char) -> c_int);
    if watching() {
        if let (Some(a), Some(b)) = (abs_path(fd1, from), abs_path(fd2, to)) {
            if under_root(&a) || under_root(&b) {
                return observe(FsKind::Rename { to: b }, a, || unsafe { real(fd1, from, fd2, to) });
            }
        }
    }
    unsafe { real(fd1, from, fd2, to) }
}

#[unsafe(no_mangle)]
pub unsafe extern "C" fn renameat2(
    fd1: c_int,
    from: *const c_char,
    fd2: c_int,
    to: *const c_char,
    flags: c_uint,
) -> c_int {
    let real =
        real!("renameat2", unsafe extern "C" fn(c_int, *const c_char, c_int, *const c_char, c_uint) -> c_int);
    if watching() {
        if let (Some(a), Some(b)) = (abs_path(fd1, from), abs_path(fd2, to)) {
            if under_root(&a) || under_root(&b) {
                return observe(FsKind::Rename { to: b }, a, || unsafe { real(fd1, from, fd2, to, flags) });
            }
        }
    }
    unsafe { real(fd1, from, fd2, to, flags) }
}

#[unsafe(no_mangle)]
pub unsafe extern "C" fn unlink(path: *const c_char) -> c_int {
    let real = real!("unlink", unsafe extern "C" fn(*const c_char) -> c_int);
    if watching() {
        if let Some(p) = abs_path(libc::AT_FDCWD, path) {
            if under_root(&p) {
                return observe(FsKind::Unlink, p, || unsafe { real(path) });
            }
        }
    }
    unsafe { real(path) }
}

#[unsafe(no_mangle)]
pub unsafe extern "C" fn unlinkat(dirfd: c_int, path: *const c_char, flags: c_int) -> c_int {
    let real = real!("unlinkat", unsafe extern "C" fn(c_int, *const c_char, c_int) -> c_int);
    if watching() {
        if let Some(p) = abs_path(dirfd, path) {
            if under_root(&p) {
                let kind = if flags & libc::AT_REMOVEDIR != 0 { FsKind::Rmdir } else { FsKind::Unlink };
                return observe(kind, p, || unsafe { real(dirfd, path, flags) });
            }
        }
    }
    unsafe { real(dirfd, path, flags) }
}

#[unsafe(no_mangle)]
pub unsafe extern "C" fn mkdir(path: *const c_char, mode: mode_t) -> c_int {
    let real = real!("mkdir", unsafe extern "C" fn(*const c_char, mode_t) -> c_int);
    if watching() {
        if let Some(p) = abs_path(libc::AT_FDCWD, path) {
            if under_root(&p) {
                return observe(FsKind::Mkdir, p, || unsafe { real(path, mode) });
            }
        }
    }
    unsafe { real(path, mode) }
}

#[unsafe(no_mangle)]
pub unsafe extern "C" fn mkdirat(dirfd: c_int, path: *const c_char, mode: mode_t) -> c_int {
    let real = real!("mkdirat", unsafe extern "C" fn(c_int, *const c_char, mode_t) -> c_int);
    if watching() {
        if let Some(p) = abs_path(dirfd, path) {
            if under_root(&p) {
                return observe(FsKind::Mkdir, p, || unsafe { real(dirfd, path, mode) });
            }
        }
    }
    unsafe { real(dirfd, path, mode) }
}

#[unsafe(no_mangle)]
pub unsafe extern "C" fn rmdir(path: *const c_char) -> c_int {
    let real = real!("rmdir", unsafe extern "C" fn(*const c_char) -> c_int);
    if watching() {
        if let Some(p) = abs_path(libc::AT_FDCWD, path) {
            if under_root(&p) {
                return observe(FsKind::Rmdir, p, || unsafe { real(path) });
            }
        }
    }
    unsafe { real(path) }
}

#[unsafe(no_mangle)]
pub unsafe extern "C" fn ftruncate64(fd: c_int, len: off_t) -> c_int {
    let real = real!("ftruncate64", unsafe extern "C" fn(c_int, off_t) -> c_int);
    if let Some(p) = fd_watched(fd) {
        return observe(FsKind::Truncate { len }, p, || unsafe { real(fd, len) });
    }
    unsafe { real(fd, len) }
}
#[unsafe(no_mangle)]
pub unsafe extern "C" fn ftruncate(fd: c_int, len: off_t) -> c_int {
    unsafe { ftruncate64(fd, len) }
}

#[unsafe(no_mangle)]
pub unsafe extern "C" fn truncate64(path: *const c_char, len: off_t) -> c_int {
    let real = real!("truncate64", unsafe extern "C" fn(*const c_char, off_t) -> c_int);
    if watching() {
        if let Some(p) = abs_path(libc::AT_FDCWD, path) {
            if under_root(&p) {
                return observe(FsKind::Truncate { len }, p, || unsafe { real(path, len) });
            }
        }
    }
    unsafe { real(path, len) }
}
#[unsafe(no_mangle)]
pub unsafe extern "C" fn truncate(path: *const c_char, len: off_t) -> c_int {
    unsafe { truncate64(path, len) }
}

#[unsafe(no_mangle)]
pub unsafe extern "C" fn link(from: *const c_char, to: *const c_char) -> c_int {
    let real = real!("link", unsafe extern "C" fn(*const c_char, *const c_char) -> c_int);
    if watching() {
        if let (Some(a), Some(b)) = (abs_path(libc::AT_FDCWD, from), abs_path(libc::AT_FDCWD, to)) {
            if under_root(&a) || under_root(&b) {
                return observe(FsKind::Link { to: b }, a, || unsafe { real(from, to) });
            }
        }
    }
    unsafe { real(from, to) }
}

#[unsafe(no_mangle)]
pub unsafe extern "C" fn linkat(
    fd1: c_int,
    from: *const c_char,
    fd2: c_int,
    to: *const c_char,
    flags: c_int,
) -> c_int {
    let real = real!("linkat", unsafe extern "C" fn(c_int, *const c_char, c_int, *const c_char, c_int) -> c_int);
    if watching() {
        if let (Some(a), Some(b)) = (abs_path(fd1, from), abs_path(fd2, to)) {
            if under_root(&a) || under_root(&b) {
                return observe(FsKind::Link { to: b }, a, || unsafe { real(fd1, from, fd2, to, flags) });
            }
        }
    }
    unsafe { real(fd1, from, fd2, to, flags) }
}

#[unsafe(no_mangle)]
pub unsafe extern "C" fn symlink(from: *const c_char, to: *const c_char) -> c_int {
    let real = real!("symlink", unsafe extern "C" fn(*const c_char, *const c_char) -> c_int);
    if watching() {
        if let Some(b) = abs_path(libc::AT_FDCWD, to) {
            if under_root(&b) {
                let a = unsafe { CStr::from_ptr(from) }.to_string_lossy().into_owned();
                return observe(FsKind::Link { to: b }, a, || unsafe { real(from, to) });
            }
        }
    }
    unsafe { real(from, to) }
}

#[unsafe(no_mangle)]
pub unsafe extern "C" fn fsync(fd: c_int) -> c_int {
    let real = real!("fsync", unsafe extern "C" fn(c_int) -> c_int);
    if let Some(p) = fd_watched(fd) {
        return observe(FsKind::Fsync, p, || unsafe { real(fd) });
    }
    unsafe { real(fd) }
}
#[unsafe(no_mangle)]
pub unsafe extern "C" fn fdatasync(fd: c_int) -> c_int {
    let real = real!("fdatasync", unsafe extern "C" fn(c_int) -> c_int);
    if let Some(p) = fd_watched(fd) {
        return observe(FsKind::Fsync, p, || unsafe { real(fd) });
    }
    unsafe { real(fd) }
}

/// A writable shared mapping of a watched file would bypass the observer.
pub static WRITABLE_MAPS: AtomicU64 = AtomicU64::new(0);

#[unsafe(no_mangle)]
pub unsafe extern "C" fn mmap(
    addr: *mut c_void,
    len: size_t,
    prot: c_int,
    flags: c_int,
    fd: c_int,
    off: off_t,
) -> *mut c_void {
    let real =
        real!("mmap", unsafe extern "C" fn(*mut c_void, size_t, c_int, c_int, c_int, off_t) -> *mut c_void);
    if fd > 2 && prot & libc::PROT_WRITE != 0 && flags & libc::MAP_SHARED != 0 && fd_watched(fd).is_some() {
        WRITABLE_MAPS.fetch_add(1, Ordering::SeqCst);
    }
    unsafe { real(addr, len, prot, flags, fd, off) }
}
#[unsafe(no_mangle)]
pub unsafe extern "C" fn mmap64(
    addr: *mut c_void,
    len: size_t,
    prot: c_int,
    flags: c_int,
    fd: c_int,
    off: off_t,
) -> *mut c_void {
    unsafe { mmap(addr, len, prot, flags, fd, off) }
}

// ---------------------------------------------------------------------------
// self test
// ---------------------------------------------------------------------------

/// Exercises std::fs and tokio::fs under a scratch root and checks that every
/// mutation was seen, that entropy is pinned and that the clock is owned.
pub fn self_test(scratch: &std::path::Path) -> Result<(), String> {
    use std::io::Write;
    use std::sync::Arc;
    let root = scratch.join("selftest");
    let _ = std::fs::remove_dir_all(&root);
    std::fs::create_dir_all(&root).map_err(|e| e.to_string())?;
    let root = root.canonicalize().map_err(|e| e.to_string())?;
    let log: Arc<Mutex<Vec<String>>> = Arc::new(Mutex::new(Vec::new()));
    let l2 = log.clone();
    fs_watch(
        root.to_str().unwrap(),
        Box::new(move |e| {
            if e.after {
                l2.lock().unwrap().push(format!("{:?}", e.kind).split([' ', '{', '(']).next().unwrap().to_string());
            }
        }),
    );
    let r = (|| -> std::io::Result<()> {
        std::fs::create_dir(root.join("d"))?;
        let mut f = std::fs::File::create(root.join("d/a"))?;
        f.write_all(b"x")?;
        f.sync_all()?;
        drop(f);
        std::fs::rename(root.join("d/a"), root.join("d/b"))?;
        let f = std::fs::OpenOptions::new().write(true).open(root.join("d/b"))?;
        f.set_len(0)?;
        drop(f);
        std::fs::remove_file(root.join("d/b"))?;
        std::fs::write(root.join("d/c"), b"yy")?;
        std::fs::remove_dir_all(root.join("d"))?;
        let rt = tokio::runtime::Builder::new_current_thread().enable_all().build()?;
        rt.block_on(async {
            tokio::fs::create_dir_all(root.join("t/u")).await?;
            tokio::fs::write(root.join("t/u/f"), b"z").await?;
            tokio::fs::rename(root.join("t/u/f"), root.join("t/u/g")).await?;
            tokio::fs::remove_file(root.join("t/u/g")).await?;
            tokio::fs::remove_dir(root.join("t/u")).await?;
            Ok::<(), std::io::Error>(())
        })?;
        Ok(())
    })();
    fs_unwatch();
    r.map_err(|e| format!("selftest fs ops failed: {e}"))?;
    let got = log.lock().unwrap().clone();
    let count = |k: &str| got.iter().filter(|s| s.as_str() == k).count();
    let want = [("Mkdir", 3), ("Open", 4), ("Write", 3), ("Fsync", 1), ("Rename", 2), ("Truncate", 1), ("Unlink", 3), ("Rmdir", 2)];
    for (k, n) in want {
        if count(k) < n {
            return Err(format!("selftest: expected >= {n} {k} events, saw {} in {:?}", count(k), got));
        }
    }
    let _ = std::fs::remove_dir_all(&root);

    // entropy
    pin_entropy(42);
    let before = ENTROPY_REQUESTS.load(Ordering::SeqCst);
    let h = std::thread::spawn(|| {
        use std::hash::BuildHasher;
        std::collections::hash_map::RandomState::new().hash_one(7u64)
    })
    .join()
    .unwrap();
    pin_entropy(42);
    let h2 = std::thread::spawn(|| {
        use std::hash::BuildHasher;
        std::collections::hash_map::RandomState::new().hash_one(7u64)
    })
    .join()
    .unwrap();
    if ENTROPY_REQUESTS.load(Ordering::SeqCst) == before || h != h2 {
        return Err(format!("selftest: entropy not owned (requests {} h {h:x} h2 {h2:x})", ENTROPY_REQUESTS.load(Ordering::SeqCst) - before));
    }
    // clock
    set_clock_ms(1_700_000_000_123);
    let now = std::time::SystemTime::now().duration_since(std::time::UNIX_EPOCH).unwrap().as_millis();
    if now != 1_700_000_000_123 {
        return Err(format!("selftest: clock not owned ({now})"));
    }
    Ok(())
}
