//! C16 — a time value denotes the same instant on every path that reads or writes it.
//! instants x spellings x sites (STORE payload, SINCE USING, WHERE literal, PER
//! bucket) x comparison operators x granularities x timezone / week-start configs.
use crate::golden::Failing;
use crate::job::{Job, Op};
use crate::lab::*;
use crate::sys::SysConfig;
use serde_json::{json, Value};
use std::collections::{BTreeMap, BTreeSet};

fn civil(t: i64) -> (i64, i64, i64, i64, i64, i64) {
    let days = t.div_euclid(86400);
    let rem = t.rem_euclid(86400);
    let z = days + 719468;
    let era = z.div_euclid(146097);
    let doe = z.rem_euclid(146097);
    let yoe = (doe - doe / 1460 + doe / 36524 - doe / 146096) / 365;
    let y = yoe + era * 400;
    let doy = doe - (365 * yoe + yoe / 4 - yoe / 100);
    let mp = (5 * doy + 2) / 153;
    let d = doy - (153 * mp + 2) / 5 + 1;
    let m = if mp < 10 { mp + 3 } else { mp - 9 };
    (if m <= 2 { y + 1 } else { y }, m, d, rem / 3600, rem % 3600 / 60, rem % 60)
}

fn days_from_civil(y: i64, m: i64, d: i64) -> i64 {
    let y = if m <= 2 { y - 1 } else { y };
    let era = y.div_euclid(400);
    let yoe = y - era * 400;
    let mp = (m + 9) % 12;
    let doy = (153 * mp + 2) / 5 + d - 1;
    let doe = yoe * 365 + yoe / 4 - yoe / 100 + doy;
    era * 146097 + doe - 719468
}

fn iso(t: i64, offset_min: i64, frac: &str) -> String {
    let (y, mo, d, h, mi, s) = civil(t + offset_min * 60);
    let off = if offset_min == 0 {
        "Z".to_string()
    } else {
        format!("{}{:02}:{:02}", if offset_min < 0 { '-' } else { '+' }, offset_min.abs() / 60, offset_min.abs() % 60)
    };
    format!("{y:04}-{mo:02}-{d:02}T{h:02}:{mi:02}:{s:02}{frac}{off}")
}

/// (spelling name, JSON value as sent) for instant t (seconds)
fn spellings(t: i64) -> Vec<(&'static str, Value)> {
    let mut v: Vec<(&'static str, Value)> = vec![("int seconds", json!(t)), ("string seconds", json!(t.to_string())), ("float seconds", json!(t as f64))];
    if let Some(ms) = t.checked_mul(1000) {
        v.push(("int milliseconds", json!(ms)));
        v.push(("string milliseconds", json!(ms.to_string())));
    }
    if let Some(us) = t.checked_mul(1_000_000) {
        v.push(("int microseconds", json!(us)));
    }
    if let Some(ns) = t.checked_mul(1_000_000_000) {
        v.push(("int nanoseconds", json!(ns)));
    }
    if (0..=253402300799).contains(&t) || t >= -62135596800 && t < 0 {
        v.push(("rfc3339 Z", json!(iso(t, 0, ""))));
        v.push(("rfc3339 +01:00", json!(iso(t, 60, ""))));
        v.push(("rfc3339 -05:30", json!(iso(t, -330, ""))));
        v.push(("rfc3339 +14:00", json!(iso(t, 840, ""))));
        v.push(("rfc3339 fractional", json!(iso(t, 0, ".250"))));
        // fractions at and above one half: every spelling of t + fraction lies in second t
        v.push(("rfc3339 fractional .500", json!(iso(t, 0, ".500"))));
        v.push(("rfc3339 fractional .750 +01:00", json!(iso(t, 60, ".750"))));
        v.push(("rfc3339 fractional .999999", json!(iso(t, 0, ".999999"))));
    }
    if t.rem_euclid(86400) == 0 && (0..=253402300799).contains(&t) {
        // a bare date denotes midnight UTC of that day on every path
        let (y, mo, d, _, _, _) = civil(t);
        v.push(("date only", json!(format!("{y:04}-{mo:02}-{d:02}"))));
    }
    v.push(("float seconds .7", json!(t as f64 + 0.7)));
    if let Some(ms) = t.checked_mul(1000) {
        v.push(("int milliseconds +700", json!(ms + 700)));
    }
    v
}

#[derive(Clone)]
struct RowSpec {
    id: i64,
    t: i64,
    spelling: &'static str,
    value: Value,
}

fn rows_for(instants: &[i64]) -> Vec<RowSpec> {
    let mut v = Vec::new();
    let mut id = 0;
    for t in instants {
        for (name, val) in spellings(*t) {
            id += 1;
            v.push(RowSpec { id, t: *t, spelling: name, value: val });
        }
    }
    v
}

fn digit_class(t: i64) -> &'static str {
    match t.unsigned_abs() {
        0..=99_999_999 => "|t| < 1e8 s",
        100_000_000..=99_999_999_999 => "1e8 <= |t| < 1e11 s",
        _ => "|t| >= 1e11 s",
    }
}

/// local UTC offset (minutes) of the two configured zones at the instants used for PER
fn offset_min(tz: &str, t: i64) -> i64 {
    match tz {
        "UTC" => return 0,
        // zones without DST whose offset is not a whole number of hours
        "Asia/Kolkata" => return 330,
        "Asia/Kathmandu" => return 345,
        _ => {}
    }
    // Europe/Amsterdam: CEST (+2) from the last Sunday of March 01:00Z to the last Sunday of October 01:00Z
    let (y, _, _, _, _, _) = civil(t);
    let last_sunday = |month: i64| {
        let d31 = days_from_civil(y, month, 31);
        let wd = (d31 + 3).rem_euclid(7); // Monday = 0
        (d31 - (wd + 1) % 7) * 86400 + 3600
    };
    if t >= last_sunday(3) && t < last_sunday(10) { 120 } else { 60 }
}

fn bucket(gran: &str, t: i64, tz: &str, week_start_sunday: bool) -> i64 {
    let off = offset_min(tz, t) * 60;
    let lt = t + off;
    let day = lt.div_euclid(86400);
    let start_local = match gran {
        "HOUR" => lt.div_euclid(3600) * 3600,
        "DAY" => day * 86400,
        "WEEK" => {
            let wd_mon = (day + 3).rem_euclid(7);
            let back = if week_start_sunday { (wd_mon + 1) % 7 } else { wd_mon };
            (day - back) * 86400
        }
        "MONTH" => {
            let (y, m, _, _, _, _) = civil(lt);
            days_from_civil(y, m, 1) * 86400
        }
        "YEAR" => {
            let (y, _, _, _, _, _) = civil(lt);
            days_from_civil(y, 1, 1) * 86400
        }
        _ => lt,
    };
    // local wall-clock start back to an instant (the offset at the start may differ across a DST change; instants are chosen away from those)
    start_local - offset_min(tz, start_local - off) * 60
}

pub fn check(tier: &str) -> i32 {
    let t0 = std::time::Instant::now();
    let scratch = Scratch::new("c16");
    let wide: Vec<i64> = vec![-86401, -1, 0, 1, 59, 3599, 3600, 86399, 86400, 999_999_999, 1_000_000_000, 99_999_999_999, 1_700_000_000, 4_000_000_000];
    // narrow cluster (one week of 2023-11 and one summer day) for flushed layouts and PER
    let narrow: Vec<i64> = vec![1_699_999_999, 1_700_000_000, 1_700_003_599, 1_700_003_600, 1_700_006_400, 1_700_092_799, 1_700_352_000, 1_700_438_400, 1_688_162_400];
    let cfgs: Vec<(String, String)> = if tier == "quick" {
        vec![("UTC".into(), "Mon".into()), ("Europe/Amsterdam".into(), "Sun".into()), ("Asia/Kolkata".into(), "Mon".into())]
    } else {
        vec![("UTC".into(), "Mon".into()), ("UTC".into(), "Sun".into()), ("Europe/Amsterdam".into(), "Mon".into()), ("Europe/Amsterdam".into(), "Sun".into()), ("Asia/Kolkata".into(), "Mon".into()), ("Asia/Kolkata".into(), "Sun".into()), ("Asia/Kathmandu".into(), "Sun".into())]
    };
    // (dataset name, instants, flush?)
    // days around New Year (ISO week-year differs from the calendar year), a leap day and year ends
    let newyear: Vec<i64> = vec![1_735_516_800, 1_735_430_400, 1_735_689_600, 1_672_574_400, 1_609_459_200, 1_609_372_800, 1_709_164_800, 1_704_067_199, 1_704_067_200];
    // two instants 40 days apart at the same time of day, stored alternately (zones of 8 rows that span
    // more than a month), then rows of a third instant in the same clock hour as the first (narrow zones
    // of the same segment): an index that treats wide and narrow zones differently has to agree on `=`
    let months: Vec<i64> = vec![1_700_000_000, 1_700_000_000 + 40 * 86400, 1_700_000_100];
    let sets: Vec<(&str, Vec<i64>, bool)> = vec![("wide/memory", wide.clone(), false), ("narrow/memory", narrow.clone(), false), ("narrow/flushed", narrow.clone(), true), ("newyear/memory", newyear.clone(), false), ("months/flushed", months.clone(), true)];
    let ops6 = ["=", "!=", "<", "<=", ">", ">="];
    let grans = ["HOUR", "DAY", "WEEK", "MONTH", "YEAR"];
    let work: Vec<(usize, usize)> = (0..cfgs.len()).flat_map(|c| (0..sets.len()).map(move |s| (c, s))).collect();
    let res = par_map(&work, threads(), |wi, (ci, si)| -> Result<(Vec<Failing>, usize, usize), String> {
        let (tz, ws) = &cfgs[*ci];
        let (sname, instants, flush) = &sets[*si];
        let mut rows = rows_for(instants);
        if sname.starts_with("months") {
            // alternate the rows of the first two instants, keep the third instant's rows behind them
            let a: Vec<RowSpec> = rows.iter().filter(|r| r.t == instants[0]).cloned().collect();
            let b: Vec<RowSpec> = rows.iter().filter(|r| r.t == instants[1]).cloned().collect();
            let c: Vec<RowSpec> = rows.iter().filter(|r| r.t == instants[2]).cloned().collect();
            rows = Vec::new();
            for i in 0..a.len().max(b.len()) {
                if let Some(x) = a.get(i) {
                    rows.push(x.clone());
                }
                if let Some(x) = b.get(i) {
                    rows.push(x.clone());
                }
            }
            rows.extend(c);
        }
        let mut ops = vec![Op::Cmd { text: "DEFINE z FIELDS { id: \"int\", d: \"datetime\", dd: \"date\" }".into() }];
        let store_base = ops.len();
        for r in &rows {
            let (y, m, d, _, _, _) = civil(r.t.clamp(-62135596800, 253402300799));
            let date_val = if r.id % 2 == 0 { json!(format!("{y:04}-{m:02}-{d:02}")) } else { json!(r.t.div_euclid(86400) * 86400) };
            ops.push(Op::CmdIsolated { text: format!("STORE z FOR c PAYLOAD {}", json!({"id": r.id, "d": r.value, "dd": date_val})) });
        }
        if *flush {
            ops.push(Op::FlushSeq);
        }
        // probes
        let probe_ts: Vec<i64> = if sname.starts_with("months") { instants.clone() } else if *flush || sname.starts_with("narrow") { vec![1_700_000_000, 1_700_003_600, 1_700_006_400] } else { vec![0, 3600, 1_000_000_000, 1_700_000_000] };
        let mut qs: Vec<(String, String)> = vec![("all".into(), "QUERY z".into())];
        for pt in &probe_ts {
            for (sp, val) in spellings(*pt) {
                let lit = match &val {
                    Value::String(s) => s.clone(),
                    o => o.to_string(),
                };
                qs.push((format!("since|{pt}|{sp}"), format!("QUERY z SINCE \"{lit}\" USING d")));
            }
            for op in ops6 {
                qs.push((format!("where|{pt}|{op}|int seconds"), format!("QUERY z WHERE d {op} {pt}")));
                qs.push((format!("where|{pt}|{op}|rfc3339 Z"), format!("QUERY z WHERE d {op} \"{}\"", iso(*pt, 0, ""))));
                qs.push((format!("where|{pt}|{op}|rfc3339 +01:00"), format!("QUERY z WHERE d {op} \"{}\"", iso(*pt, 60, ""))));
                qs.push((format!("where|{pt}|{op}|rfc3339 fractional .750"), format!("QUERY z WHERE d {op} \"{}\"", iso(*pt, 0, ".750"))));
                qs.push((format!("where|{pt}|{op}|int milliseconds +700"), format!("QUERY z WHERE d {op} {}", pt * 1000 + 700)));
            }
        }
        // the `date` field: bare-date literals on the WHERE and SINCE paths
        for day in if sname.starts_with("narrow") { vec![1_700_006_400i64, 1_699_920_000] } else { vec![0i64, 86400, 1_699_920_000] } {
            let (y, mo, d, _, _, _) = civil(day);
            let lit = format!("{y:04}-{mo:02}-{d:02}");
            for op in ["=", "<", ">="] {
                qs.push((format!("wheredd|{day}|{op}|date only"), format!("QUERY z WHERE dd {op} \"{lit}\"")));
            }
            qs.push((format!("sincedd|{day}|date only"), format!("QUERY z SINCE \"{lit}\" USING dd")));
        }
        if sname.starts_with("narrow") || sname.starts_with("newyear") {
            for g in grans {
                qs.push((format!("per|{g}"), format!("QUERY z COUNT PER {g} USING d")));
            }
        }
        ops.push(Op::Observe { queries: qs.iter().map(|q| q.1.clone()).collect() });
        let job = Job {
            root: scratch.dir.join(format!("w{wi}/db")).to_string_lossy().into_owned(),
            cfg: SysConfig { fill_factor: 64, event_per_zone: 8, timezone: tz.clone(), week_start: ws.clone(), ..Default::default() },
            entropy: 51,
            clock_ms: BASE_CLOCK_MS,
            clock_step_ms: 1000,
            ops,
            ..Default::default()
        };
        let r = crate::explore::run_child(&job, &scratch.dir.join(format!("w{wi}/job.json")))?;
        let _ = std::fs::remove_dir_all(scratch.dir.join(format!("w{wi}")));
        if let Some(e) = &r.error {
            return Err(e.clone());
        }
        let keyp = format!("tz={tz} week={ws}|{sname}");
        let mut fails: Vec<Failing> = Vec::new();
        let mut judged = 0usize;
        let mut nontrivial = 0usize;
        // site 1: STORE normalisation
        let obs = r.steps.last().unwrap();
        let all = &obs.replies[0];
        let mut stored: BTreeMap<i64, i64> = BTreeMap::new();
        let mut stored_dd: BTreeMap<i64, i64> = BTreeMap::new();
        for row in &all.rows {
            if let (Some(id), Some(d)) = (row.get("id").and_then(|v| v.as_i64()), row.get("d").and_then(|v| v.as_i64())) {
                stored.insert(id, d);
            }
            if let (Some(id), Some(d)) = (row.get("id").and_then(|v| v.as_i64()), row.get("dd").and_then(|v| v.as_i64())) {
                stored_dd.insert(id, d);
            }
        }
        for (i, rs) in rows.iter().enumerate() {
            judged += 1;
            nontrivial += 1;
            let st = &r.steps[store_base + i];
            let status = st.replies.first().map(|x| x.status).unwrap_or(0);
            let got = stored.get(&rs.id).copied();
            let problem = if status != 200 {
                Some(format!("rejected with {status}"))
            } else if got != Some(rs.t) {
                Some(format!("stored as {got:?}"))
            } else {
                None
            };
            if let Some(p) = problem {
                fails.push(Failing {
                    key: format!("{keyp}|store|t={}|{}", rs.t, rs.spelling),
                    digest: crate::golden::digest(&p),
                    class: format!("STORE payload: {} of an instant with {}", rs.spelling, digit_class(rs.t)),
                    detail: json!({"instant": rs.t, "spelling": rs.spelling, "sent": rs.value, "result": p}),
                });
            }
        }
        // sites 2-4 are judged against the values the system itself returns
        let ids_of = |rep: &crate::decode::Reply| -> Result<Vec<i64>, String> {
            if rep.failure.is_some() || (rep.status != 200 && !rep.message.to_lowercase().contains("no matching")) {
                return Err(format!("status {} {}", rep.status, rep.message));
            }
            let mut v: Vec<i64> = rep.rows.iter().filter_map(|row| row.get("id").and_then(|x| x.as_i64())).collect();
            v.sort();
            Ok(v)
        };
        for (qi, (label, text)) in qs.iter().enumerate().skip(1) {
            let rep = &obs.replies[qi];
            let parts: Vec<&str> = label.split('|').collect();
            judged += 1;
            match parts[0] {
                "since" | "where" => {
                    let pt: i64 = parts[1].parse().unwrap();
                    let op = if parts[0] == "since" { ">=" } else { parts[2] };
                    let mut want: Vec<i64> = stored
                        .iter()
                        .filter(|(_, d)| match op {
                            "=" => **d == pt,
                            "!=" => **d != pt,
                            "<" => **d < pt,
                            "<=" => **d <= pt,
                            ">" => **d > pt,
                            _ => **d >= pt,
                        })
                        .map(|(id, _)| *id)
                        .collect();
                    want.sort();
                    if !want.is_empty() && want.len() < stored.len() {
                        nontrivial += 1;
                    }
                    let got = ids_of(rep);
                    if got.as_ref().ok() != Some(&want) {
                        let sp = parts.last().unwrap();
                        let desc = match &got {
                            Ok(g) => format!("selected {} rows, {} rows have a stored instant {op} {pt} (missing {:?}, extra {:?})", g.len(), want.len(), want.iter().filter(|i| !g.contains(i)).take(4).collect::<Vec<_>>(), g.iter().filter(|i| !want.contains(i)).take(4).collect::<Vec<_>>()),
                            Err(e) => e.clone(),
                        };
                        fails.push(Failing {
                            key: format!("{keyp}|{label}"),
                            digest: crate::golden::digest(&desc),
                            class: if parts[0] == "since" { format!("SINCE USING d: literal spelled as {sp}") } else { format!("WHERE d {op} literal spelled as {sp}") },
                            detail: json!({"query": text, "result": desc}),
                        });
                    }
                }
                "wheredd" | "sincedd" => {
                    let pt: i64 = parts[1].parse().unwrap();
                    let op = if parts[0] == "sincedd" { ">=" } else { parts[2] };
                    let mut want: Vec<i64> = stored_dd.iter().filter(|(_, d)| match op { "=" => **d == pt, "<" => **d < pt, _ => **d >= pt }).map(|(id, _)| *id).collect();
                    want.sort();
                    if !want.is_empty() && want.len() < stored_dd.len() {
                        nontrivial += 1;
                    }
                    let got = ids_of(rep);
                    if got.as_ref().ok() != Some(&want) {
                        let desc = match &got {
                            Ok(g) => format!("selected {} rows, {} rows have a stored date {op} {pt} (missing {:?}, extra {:?})", g.len(), want.len(), want.iter().filter(|i| !g.contains(i)).take(4).collect::<Vec<_>>(), g.iter().filter(|i| !want.contains(i)).take(4).collect::<Vec<_>>()),
                            Err(e) => e.clone(),
                        };
                        fails.push(Failing { key: format!("{keyp}|{label}"), digest: crate::golden::digest(&desc), class: if parts[0] == "sincedd" { "SINCE USING dd (date field): bare-date literal".to_string() } else { format!("WHERE dd {op} bare-date literal (date field)") }, detail: json!({"query": text, "result": desc}) });
                    }
                }
                "per" => {
                    let g = parts[1];
                    let mut want: BTreeMap<i64, i64> = BTreeMap::new();
                    for d in stored.values() {
                        *want.entry(bucket(g, *d, tz, ws == "Sun")).or_insert(0) += 1;
                    }
                    nontrivial += 1;
                    let mut got: BTreeMap<i64, i64> = BTreeMap::new();
                    for row in &rep.rows {
                        if let (Some(b), Some(c)) = (row.get("bucket").and_then(|v| v.as_i64()), row.get("count").and_then(|v| v.as_i64())) {
                            *got.entry(b).or_insert(0) += c;
                        }
                    }
                    if got != want {
                        let desc = format!("buckets {:?}, calendar-aligned starts of the stored instants give {:?}", got.iter().take(6).collect::<Vec<_>>(), want.iter().take(6).collect::<Vec<_>>());
                        fails.push(Failing { key: format!("{keyp}|{label}"), digest: crate::golden::digest(&desc), class: format!("PER {g} bucket alignment (tz {tz}, week starts {ws})"), detail: json!({"query": text, "result": desc}) });
                    }
                }
                _ => {}
            }
        }
        Ok((fails, judged, nontrivial))
    });
    let mut failing = Vec::new();
    let mut judged = 0;
    let mut nontrivial = 0;
    for r in res {
        match r {
            Err(e) => {
                eprintln!("MACHINERY: {e}");
                return 2;
            }
            Ok((f, j, n)) => {
                failing.extend(f);
                judged += j;
                nontrivial += n;
            }
        }
    }
    let verdict = crate::golden::judge("C16", tier, &failing);
    let nv = crate::golden::report("C16", &verdict, &|_| "a spelling of an instant is not read as that instant on this path (exact cases in known/C16.*.json)".to_string(), 8);
    let classes: BTreeSet<String> = failing.iter().map(|f| f.class.clone()).collect();
    write_evidence(&Evidence {
        property_id: "C16".into(),
        tier: tier.into(),
        seed: seed(),
        level: "exploration".into(),
        coverage: json!({
            "evaluations": judged,
            "distinct_nontrivial": nontrivial,
            "rule": "instants {-86401, -1, 0, 1, 59, 3599, 3600, 86399, 86400, 999999999, 1e9, 99999999999, 1.7e9, 4e9} (memory) and a cluster around hour / day / week / month boundaries of 2023-11 plus a summer instant (memory and flushed), and days around New Year of several years, a leap day and year ends (memory), and two instants 40 days apart stored alternately in front of rows of a third instant in the same clock hour (flushed: zones spanning more than a month next to narrow ones) x spellings {int s/ms/us/ns, the same as strings, float seconds, RFC 3339 with Z, +01:00, -05:30, +14:00, fractional seconds .250/.500/.750/.999999, float seconds + 0.7, milliseconds + 700} on four sites: (1) STORE payload of a datetime field (and a date field) - the value read back must be the instant's epoch second; (2) SINCE \"<spelling>\" USING d; (3) WHERE d <op> <literal> for all six operators, and bare-date literals against the `date` field dd on the WHERE and SINCE paths with epoch-second, millisecond, RFC 3339 and fractional RFC 3339 literals; (4) COUNT PER {HOUR..YEAR} USING d; sites 2-4 are judged against the values the system itself returns for the rows; configurations timezone x week start; distinct_nontrivial = STORE cases + probes whose expected answer is a proper non-empty subset + PER probes",
            "samples": rows_for(&[1_700_000_000]).iter().map(|r| json!({"instant": r.t, "spelling": r.spelling, "sent": r.value})).collect::<Vec<_>>(),
            "configurations": cfgs,
            "failing_cases": failing.len(),
            "failing_classes": classes.len(),
            "exhaustive": true,
        }),
        assumptions: vec!["independent integer calendar arithmetic (proleptic Gregorian; Europe/Amsterdam = CET/CEST with EU switch dates; Asia/Kolkata = +05:30 and Asia/Kathmandu = +05:45 without DST) - instants for PER are chosen away from DST switches".into(), "the flushed layout uses only the narrow cluster: the temporal index builder enumerates every bucket between the smallest and largest instant of a segment, which does not terminate in reasonable time for spans of decades (observed: 53 years = 60 s CPU)".into()],
        wall_s: t0.elapsed().as_secs_f64(),
        violations: nv,
    });
    if nv == 0 { 0 } else { 1 }
}
