//! C06 — STORE accepts exactly the payloads that conform to the defined schema.
//! Every primitive alias / nullable / enum / time schema x the slot-value
//! alphabet, end to end through dispatch; rejected STOREs must be invisible,
//! accepted ones readable; failed DEFINEs leave the old schema in force.
use crate::job::{Job, Op};
use crate::lab::*;
use crate::sys::SysConfig;
use serde_json::{json, Value};
use std::collections::BTreeMap;

#[derive(Debug, Clone, PartialEq)]
enum Ty {
    Str,
    I64,
    U64,
    F64,
    Bool,
    DateTime,
    Date,
    Enum,
    Opt(Box<Ty>),
}

fn schemas() -> Vec<(String, String, Ty)> {
    // (name, type text as written in DEFINE, reference type)
    let mut v: Vec<(String, String, Ty)> = Vec::new();
    let prim: Vec<(&str, Ty)> = vec![
        ("string", Ty::Str), ("str", Ty::Str), ("text", Ty::Str), ("varchar", Ty::Str),
        ("u64", Ty::U64), ("uint64", Ty::U64),
        ("i64", Ty::I64), ("int64", Ty::I64), ("int", Ty::I64), ("integer", Ty::I64),
        ("f64", Ty::F64), ("float", Ty::F64), ("double", Ty::F64), ("number", Ty::F64),
        ("bool", Ty::Bool), ("boolean", Ty::Bool),
        ("datetime", Ty::DateTime), ("timestamp", Ty::DateTime), ("date", Ty::Date),
    ];
    for (i, (s, t)) in prim.iter().enumerate() {
        v.push((format!("p{i}"), format!("\"{s}\""), t.clone()));
    }
    v.push(("n0".into(), "\"int | null\"".into(), Ty::Opt(Box::new(Ty::I64))));
    v.push(("n1".into(), "\"string | null\"".into(), Ty::Opt(Box::new(Ty::Str))));
    v.push(("n2".into(), "\"float | null\"".into(), Ty::Opt(Box::new(Ty::F64))));
    v.push(("n3".into(), "\"datetime | null\"".into(), Ty::Opt(Box::new(Ty::DateTime))));
    // the union written null-first, and with odd spacing
    v.push(("n4".into(), "\"null | int\"".into(), Ty::Opt(Box::new(Ty::I64))));
    v.push(("n5".into(), "\"null | string\"".into(), Ty::Opt(Box::new(Ty::Str))));
    v.push(("n6".into(), "\"float|null\"".into(), Ty::Opt(Box::new(Ty::F64))));
    v.push(("e0".into(), "[\"x\", \"y\"]".into(), Ty::Enum));
    v
}

const ABSENT: &str = "\u{1}absent";

fn slot_values() -> Vec<Value> {
    vec![
        json!(ABSENT), json!(null), json!(true), json!(false), json!(0), json!(1), json!(-1), json!(i64::MAX), json!(9223372036854775808u64), json!(u64::MAX),
        json!(1.0), json!(1.5), json!(1e308), json!(""), json!("x"), json!("X"), json!("é"), json!([1]), json!({"a": 1}),
        json!("2024-01-02T03:04:05Z"), json!("2024-01-02"), json!("2024-13-45T00:00:00Z"), json!("1700000000"),
        // a valid date followed by something that is not a time
        json!("2024-01-02T25:61:00Z"), json!("2024-01-02 and then some"), json!("2024-01-021"),
    ]
}

/// Some(true) accept, Some(false) reject, None = the statement leaves it open
fn conforms(t: &Ty, v: &Value) -> Option<bool> {
    let absent = v.as_str() == Some(ABSENT);
    match t {
        Ty::Opt(inner) => {
            if absent || v.is_null() {
                return Some(true);
            }
            conforms(inner, v)
        }
        _ if absent || v.is_null() => Some(false),
        Ty::Str => Some(v.is_string()),
        Ty::Bool => Some(v.is_boolean()),
        Ty::I64 => Some(v.is_i64()),
        Ty::U64 => Some(v.is_u64()),
        Ty::F64 => Some(v.is_number()),
        Ty::Enum => Some(v.as_str().map_or(false, |s| s == "x" || s == "y")),
        Ty::DateTime | Ty::Date if matches!(v, Value::String(s) if ["2024-01-02T25:61:00Z", "2024-01-02 and then some", "2024-01-021"].contains(&s.as_str())) => Some(false),
        Ty::DateTime => match v {
            Value::String(s) => {
                if crate::refq::parse_iso(s, false).is_some() && s.len() > 10 {
                    // a syntactically well-formed ISO string with an impossible month/day is not parseable
                    Some(!s.contains("-13-"))
                } else if s.len() == 10 && crate::refq::parse_iso(s, true).is_some() {
                    None // a date-only string for a datetime field: not specified
                } else if s.parse::<i64>().is_ok() {
                    None // numeric string: "accepts the same spellings as strings" is a C16 matter
                } else {
                    Some(false)
                }
            }
            Value::Number(n) => {
                if n.is_i64() {
                    Some(true)
                } else if n.is_u64() {
                    None // above i64::MAX
                } else {
                    let f = n.as_f64().unwrap_or(f64::INFINITY);
                    if f.abs() > 1e18 { Some(false) } else { Some(true) }
                }
            }
            _ => Some(false),
        },
        Ty::Date => match v {
            Value::String(s) => {
                if s.len() == 10 && crate::refq::parse_iso(s, true).is_some() {
                    Some(true)
                } else if crate::refq::parse_iso(s, false).is_some() || s.parse::<i64>().is_ok() {
                    None
                } else {
                    Some(false)
                }
            }
            Value::Number(n) => {
                if n.is_i64() {
                    Some(true)
                } else {
                    None
                }
            }
            _ => Some(false),
        },
    }
}

struct Case {
    cmd: String,
    expect: Option<bool>,
    id: Option<i64>,
    class: String,
}

fn build_cases(name: &str, ty: &Ty) -> Vec<Case> {
    let mut v = Vec::new();
    let mut id = 0i64;
    for sv in slot_values() {
        id += 1;
        let mut m = serde_json::Map::new();
        m.insert("id".into(), json!(id));
        if sv.as_str() != Some(ABSENT) {
            m.insert("f".into(), sv.clone());
        }
        let kind = match &sv {
            Value::String(s) if s == ABSENT => "absent".to_string(),
            Value::Null => "null".into(),
            Value::Bool(_) => "bool".into(),
            Value::Number(n) if n.is_f64() => format!("float {n}"),
            Value::Number(n) => format!("integer {n}"),
            Value::String(s) => format!("string {s:?}"),
            Value::Array(_) => "array".into(),
            Value::Object(_) => "object".into(),
        };
        v.push(Case { cmd: format!("STORE {name} FOR c PAYLOAD {}", Value::Object(m)), expect: conforms(ty, &sv), id: Some(id), class: format!("{:?} <- {kind}", ty) });
    }
    // a value that conforms, for the structural cases
    let good = match ty {
        Ty::Str | Ty::Opt(_) if matches!(ty, Ty::Str) => json!("ok"),
        Ty::Opt(inner) => match **inner {
            Ty::Str => json!("ok"),
            Ty::F64 => json!(1.5),
            _ => json!(5),
        },
        Ty::I64 | Ty::U64 | Ty::DateTime | Ty::Date => json!(5),
        Ty::F64 => json!(1.5),
        Ty::Bool => json!(true),
        Ty::Enum => json!("x"),
        Ty::Str => json!("ok"),
    };
    let mut push = |cmd: String, expect: bool, idv: Option<i64>, class: &str| v.push(Case { cmd, expect: Some(expect), id: idv, class: class.to_string() });
    push(format!("STORE {name} FOR c PAYLOAD {}", json!({"id": 100, "f": good})), true, Some(100), "conforming payload");
    push(format!("STORE {name} FOR c PAYLOAD {}", json!({"id": 101, "f": good, "extra": 1})), false, Some(101), "extra key");
    push(format!("STORE {name} FOR c PAYLOAD {}", json!({"id": 102, "F": good})), false, Some(102), "misspelled key");
    push(format!("STORE {name} FOR c PAYLOAD {}", json!({"f": good})), false, None, "missing required key");
    push(format!("STORE {name} FOR c PAYLOAD {}", json!({"id": 1.5, "f": good})), false, None, "float for the integer id");
    push(format!("STORE {name} FOR c PAYLOAD {}", json!({"id": "104", "f": good})), false, None, "string for the integer id");
    push(format!("STORE {name} FOR c PAYLOAD [1, 2]"), false, None, "array payload");
    push(format!("STORE {name} FOR c PAYLOAD \"text\""), false, None, "string payload");
    push(format!("STORE {name} FOR c PAYLOAD 7"), false, None, "number payload");
    push(format!("STORE {name} FOR \"\" PAYLOAD {}", json!({"id": 105, "f": good})), false, Some(105), "empty context id");
    push(format!("STORE {name} FOR \"  \" PAYLOAD {}", json!({"id": 106, "f": good})), false, Some(106), "blank context id");
    push(format!("STORE {name}_undefined FOR c PAYLOAD {}", json!({"id": 107, "f": good})), false, Some(107), "undefined event type");
    push(format!("STORE {name} FOR c PAYLOAD {}", json!({"id": 108, "f": good, "g": {"nested": true}})), false, Some(108), "nested extra object");
    // DEFINE answered with an error must leave the schema in force
    push(format!("DEFINE {name} FIELDS {{ id: \"int\", other: \"string\" }}"), false, None, "redefinition");
    push(format!("STORE {name} FOR c PAYLOAD {}", json!({"id": 110, "f": good})), true, Some(110), "old schema still accepted after failed redefinition");
    push(format!("STORE {name} FOR c PAYLOAD {}", json!({"id": 111, "other": "s"})), false, Some(111), "new schema not in force after failed redefinition");
    v
}


/// Multi-field schemas: {id, f0..f(k-1)} with types cycling over a list; payloads = every
/// combination of per-slot choices (good, wrong kind, absent[, null]); keys are written in
/// forward or reverse order. Returns (DEFINE text, cases).
fn multi_cases(name: &str, k: usize, with_null: bool) -> (String, Vec<Case>) {
    let tys: Vec<(Ty, &str, Value, Value)> = vec![
        (Ty::I64, "\"int\"", json!(7), json!("7")),
        (Ty::Opt(Box::new(Ty::Str)), "\"string | null\"", json!("ok"), json!(5)),
        (Ty::Enum, "[\"x\", \"y\"]", json!("y"), json!("Y")),
        (Ty::F64, "\"float\"", json!(2.5), json!("2.5")),
        (Ty::Bool, "\"bool\"", json!(false), json!(0)),
        (Ty::Opt(Box::new(Ty::I64)), "\"int | null\"", json!(-3), json!(1.5)),
    ];
    let fields: Vec<(String, &(Ty, &str, Value, Value))> = (0..k).map(|i| (format!("f{i}"), &tys[i % tys.len()])).collect();
    let define = format!("DEFINE {name} FIELDS {{ id: \"int\", {} }}", fields.iter().map(|(n, t)| format!("{n}: {}", t.1)).collect::<Vec<_>>().join(", "));
    let choices = if with_null { 4 } else { 3 };
    let total = (choices as u64).pow(k as u32);
    let mut cases = Vec::new();
    let mut id = 1000i64;
    let render = |pairs: &[(String, Value)], reverse: bool| -> String {
        let mut v: Vec<String> = pairs.iter().map(|(k, v)| format!("{}:{}", Value::String(k.clone()), v)).collect();
        if reverse {
            v.reverse();
        }
        format!("{{{}}}", v.join(","))
    };
    for code in 0..total {
        let mut c = code;
        id += 1;
        let mut pairs: Vec<(String, Value)> = vec![("id".into(), json!(id))];
        let mut ok = true;
        let mut desc = Vec::new();
        for (fname, t) in &fields {
            let ch = c % choices as u64;
            c /= choices as u64;
            let v = match ch {
                0 => t.2.clone(),
                1 => t.3.clone(),
                2 => json!(ABSENT),
                _ => Value::Null,
            };
            match conforms(&t.0, &v) {
                Some(true) => {}
                _ => ok = false,
            }
            if ch != 0 {
                desc.push(format!("{fname} {}", ["good", "wrong kind", "absent", "null"][ch as usize]));
            }
            if v.as_str() != Some(ABSENT) {
                pairs.push((fname.clone(), v));
            }
        }
        let nbad = desc.len();
        cases.push(Case {
            cmd: format!("STORE {name} FOR c PAYLOAD {}", render(&pairs, code % 2 == 1)),
            expect: Some(ok),
            id: Some(id),
            class: format!("schema with {k} typed fields: {} slots deviate ({})", nbad, if ok { "all allowed" } else { "at least one not allowed" }),
        });
    }
    // undeclared keys next to every subset-shape: all good + extra; each optional omitted + a misspelling of it
    let good: Vec<(String, Value)> = std::iter::once(("id".to_string(), json!(0))).chain(fields.iter().map(|(n, t)| (n.clone(), t.2.clone()))).collect();
    let mut push = |pairs: Vec<(String, Value)>, class: String, idv: i64| {
        let mut p = pairs;
        p[0].1 = json!(idv);
        cases.push(Case { cmd: format!("STORE {name} FOR c PAYLOAD {}", render(&p, idv % 2 == 1)), expect: Some(false), id: Some(idv), class });
    };
    let mut idv = 5000;
    let mut g = good.clone();
    g.push(("zz".into(), json!(1)));
    idv += 1;
    push(g, format!("schema with {k} typed fields: undeclared key on top of all declared keys"), idv);
    for (i, (fname, t)) in fields.iter().enumerate() {
        let mut g: Vec<(String, Value)> = good.iter().filter(|(n, _)| n != fname).cloned().collect();
        g.insert((i + 1).min(g.len()), (format!("{fname}x"), t.2.clone()));
        idv += 1;
        push(g, format!("schema with {k} typed fields: misspelled {} key replaces the declared one", if matches!(t.0, Ty::Opt(_)) { "optional" } else { "required" }), idv);
    }
    (define, cases)
}

pub fn check(tier: &str) -> i32 {
    let t0 = std::time::Instant::now();
    let kf = crate::known::load();
    let scratch = Scratch::new("c06");
    let sch = schemas();
    let layouts = if tier == "quick" { vec!["mem"] } else { vec!["mem", "flush"] };
    // time-typed schemas are not flushed: the accepted out-of-range instants (listed finding)
    // make the temporal index builder enumerate an astronomically large bucket range
    let work: Vec<(usize, &str)> = (0..sch.len())
        .flat_map(|i| layouts.iter().map(move |l| (i, *l)))
        .filter(|(i, l)| !(*l == "flush" && matches!(sch[*i].2, Ty::DateTime | Ty::Date) || *l == "flush" && sch[*i].2 == Ty::Opt(Box::new(Ty::DateTime))))
        .collect();
    let multi_ks: Vec<usize> = if tier == "quick" { vec![2, 3, 5] } else { vec![1, 2, 3, 4, 5, 6, 7] };
    let mut work = work;
    for (mi, _) in multi_ks.iter().enumerate() {
        for l in &layouts {
            work.push((sch.len() + mi, *l));
        }
    }
    let multi_total: usize = multi_ks.iter().map(|k| multi_cases("x", *k, tier != "quick").1.len()).sum::<usize>() * layouts.len();
    let res = par_map(&work, threads(), |wi, (si, layout)| -> Result<Vec<(String, String, bool)>, String> {
        let multi = *si >= sch.len();
        let mname;
        let mty = Ty::I64;
        let mtext;
        let (name, tytext, ty): (&String, &String, &Ty) = if multi {
            mname = format!("m{}", multi_ks[*si - sch.len()]);
            mtext = String::from("(several)");
            (&mname, &mtext, &mty)
        } else {
            (&sch[*si].0, &sch[*si].1, &sch[*si].2)
        };
        let (define, cases) = if multi { multi_cases(name, multi_ks[*si - sch.len()], tier != "quick") } else { (format!("DEFINE {name} FIELDS {{ id: \"int\", f: {tytext} }}"), build_cases(name, ty)) };
        let mut ops = vec![Op::Cmd { text: define }];
        for c in &cases {
            ops.push(Op::CmdIsolated { text: c.cmd.clone() });
        }
        if *layout == "flush" {
            ops.push(Op::FlushSeq);
        }
        ops.push(Op::Observe { queries: vec![format!("QUERY {name}"), format!("REPLAY {name} FOR c")] });
        // invalid DEFINEs on fresh names
        let bad_defines = vec![
            format!("DEFINE {name}_b1 FIELDS {{ }}"),
            format!("DEFINE {name}_b2 FIELDS {{ f: [\"x\", 1] }}"),
            format!("DEFINE {name}_b3 FIELDS {{ f: \"nosuchtype\" }}"),
            format!("DEFINE {name}_b4 FIELDS {{ f: {{ \"nested\": \"int\" }} }}"),
        ];
        let nbad = bad_defines.len();
        for d in &bad_defines {
            ops.push(Op::CmdIsolated { text: d.clone() });
        }
        // second lifetime (not for time-typed schemas, whose accepted out-of-range instants must not be
        // flushed): after a clean restart the schema in force is still the one that was defined, the
        // refused redefinition has left no trace, and the accepted events are still the only ones
        let timey = !multi && (matches!(ty, Ty::DateTime | Ty::Date) || *ty == Ty::Opt(Box::new(Ty::DateTime)));
        let good_after = if multi { None } else { cases.iter().find(|c| c.class == "old schema still accepted after failed redefinition").map(|c| c.cmd.replace("\"id\":110", "\"id\":120")) };
        let cfg = SysConfig { fill_factor: 64, event_per_zone: 8, ..Default::default() };
        let mut lives = vec![LifeSpec { ops: ops.clone(), snap: crate::job::SnapMode::Off, fsmon: false }];
        if !timey {
            lives[0].ops.push(Op::ShutdownSeq);
            let mut l1 = Vec::new();
            if let Some(g) = &good_after {
                l1.push(Op::CmdIsolated { text: g.clone() });
                l1.push(Op::CmdIsolated { text: format!("STORE {name} FOR c PAYLOAD {}", json!({"id": 121, "other": "s"})) });
            }
            l1.push(Op::Observe { queries: vec![format!("QUERY {name}"), format!("REPLAY {name} FOR c")] });
            lives.push(LifeSpec { ops: l1, snap: crate::job::SnapMode::Off, fsmon: false });
        }
        let mut rr = run_lifetimes(&scratch.dir.join(format!("w{wi}")), &cfg, 31, &lives, false)?;
        let _ = std::fs::remove_dir_all(scratch.dir.join(format!("w{wi}")));
        for x in &rr {
            if let Some(e) = &x.error {
                return Err(e.clone());
            }
        }
        let second = if rr.len() > 1 { rr.pop() } else { None };
        let r = rr.pop().unwrap();
        if !r.steps[0].replies.first().map_or(false, |x| x.ok()) {
            return Ok(vec![(format!("define-rejected {tytext}"), format!("DEFINE of a documented type spelling {tytext} answered {:?}", r.steps[0].replies.first().map(|x| (x.status, x.message.clone()))), false)]);
        }
        // (class, message, open)
        let mut out: Vec<(String, String, bool)> = Vec::new();
        let mut accepted_ids: Vec<i64> = Vec::new();
        for (ci, c) in cases.iter().enumerate() {
            let st = &r.steps[1 + ci];
            let status = st.replies.first().map(|x| x.status).unwrap_or(0);
            if !st.note.is_empty() || st.blocked {
                out.push((format!("panic/blocked: {}", c.class), format!("{} -> {} blocked={}", c.cmd, st.note, st.blocked), false));
                continue;
            }
            let accepted = status == 200;
            if accepted {
                if let Some(id) = c.id {
                    accepted_ids.push(id);
                }
            }
            match c.expect {
                Some(e) if e != accepted => out.push((
                    format!("{}: {}", if e { "conforming payload rejected" } else { "non-conforming payload accepted" }, c.class),
                    format!("[{layout}] {} -> status {status} ({})", c.cmd, st.replies.first().map(|x| x.message.clone()).unwrap_or_default()),
                    false,
                )),
                None => out.push((format!("unspecified: {}", c.class), format!("accepted={accepted}"), true)),
                _ => {}
            }
            // any error status is "answered with an error"; only a missing answer is judged
            if status == 0 {
                out.push((format!("no answer: {}", c.class), format!("{} got no decodable response", c.cmd), false));
            }
        }
        // reads: exactly the accepted STOREs
        let obs = &r.steps[1 + cases.len() + if *layout == "flush" { 1 } else { 0 }];
        for (qi, what) in ["QUERY", "REPLAY"].iter().enumerate() {
            let rep = &obs.replies[qi];
            let mut ids: Vec<i64> = rep.rows.iter().filter_map(|row| row.get("id").and_then(|v| v.as_i64())).collect();
            ids.sort();
            let mut want = accepted_ids.clone();
            want.sort();
            if ids != want {
                let extra: Vec<&i64> = ids.iter().filter(|i| !want.contains(i)).collect();
                let missing: Vec<&i64> = want.iter().filter(|i| !ids.contains(i)).collect();
                out.push((format!("visibility: {what} after the STOREs"), format!("[{layout}] schema f: {tytext}: rows of rejected STOREs visible {extra:?}; accepted STOREs not readable {missing:?}"), false));
            }
        }
        if let Some(r2) = &second {
            let mut want = accepted_ids.clone();
            let mut oi = 0;
            if good_after.is_some() {
                let st_old = r2.steps[0].replies.first().map(|x| x.status).unwrap_or(0);
                let st_new = r2.steps[1].replies.first().map(|x| x.status).unwrap_or(0);
                if st_old != 200 {
                    out.push(("after a restart: conforming payload rejected (schema in force changed by the refused DEFINE)".to_string(), format!("[{layout}] schema f: {tytext}: STORE with the defined schema answered {st_old} after the restart"), false));
                } else {
                    want.push(120);
                }
                if st_new == 200 {
                    out.push(("after a restart: payload of the refused redefinition accepted".to_string(), format!("[{layout}] schema f: {tytext}: STORE {{id, other}} answered 200 after the restart"), false));
                    want.push(121);
                }
                oi = 2;
            }
            want.sort();
            for (qi, what) in ["QUERY", "REPLAY"].iter().enumerate() {
                let rep = &r2.steps[oi].replies[qi];
                let mut ids: Vec<i64> = rep.rows.iter().filter_map(|row| row.get("id").and_then(|v| v.as_i64())).collect();
                ids.sort();
                if ids != want {
                    let extra: Vec<&i64> = ids.iter().filter(|i| !want.contains(i)).collect();
                    let missing: Vec<&i64> = want.iter().filter(|i| !ids.contains(i)).collect();
                    out.push((format!("visibility after a restart: {what}"), format!("[{layout}] schema {name}: rows of rejected STOREs visible {extra:?}; accepted STOREs not readable {missing:?}"), false));
                }
            }
        }
        let base = r.steps.len() - nbad - if second.is_some() { 1 } else { 0 };
        for (bi, d) in bad_defines.iter().enumerate() {
            let st = &r.steps[base + bi];
            let status = st.replies.first().map(|x| x.status).unwrap_or(0);
            // which DEFINEs must fail is not part of the property; only panics / missing answers count
            if status == 0 || !st.note.is_empty() {
                out.push((format!("DEFINE without an answer: {}", ["empty schema", "enum with a non-string variant", "unknown type name", "nested schema"][bi]), format!("{d} -> status {status} {}", st.note), false));
            }
        }
        Ok(out)
    });
    let mut by_class: BTreeMap<String, Vec<String>> = BTreeMap::new();
    let mut open = 0usize;
    let mut stores = 0usize;
    for r in &res {
        match r {
            Err(e) => {
                eprintln!("MACHINERY: {e}");
                return 2;
            }
            Ok(v) => {
                for (c, m, is_open) in v {
                    if *is_open {
                        open += 1;
                    } else {
                        by_class.entry(c.clone()).or_default().push(m.clone());
                    }
                }
            }
        }
    }
    for (_, _, ty) in &sch {
        stores += build_cases("x", ty).len() * layouts.len();
    }
    stores += multi_total;
    clear_replays("C06");
    let mut nv = 0;
    for (class, ms) in &by_class {
        if kf.is_known("C06", class) {
            println!("KNOWN-FINDING: property=C06 {class}: {} [{} cases, e.g. {}]", kf.describe("C06", class), ms.len(), ms[0].chars().take(220).collect::<String>());
        } else {
            nv += 1;
            let path = write_replay("C06", &json!({"property": "C06", "class": class, "example": ms[0], "count": ms.len(), "all": ms.iter().take(20).collect::<Vec<_>>()}));
            println!("VIOLATION property=C06 replay={path}");
            eprintln!("  [{class}] {} ({} cases)", ms[0].chars().take(260).collect::<String>(), ms.len());
        }
    }
    write_evidence(&Evidence {
        property_id: "C06".into(),
        tier: tier.into(),
        seed: seed(),
        level: "exploration".into(),
        coverage: json!({
            "evaluations": stores,
            "distinct_nontrivial": stores - open,
            "rule": format!("{} schemas {{id: int, f: T}} with T = each of the 19 documented primitive spellings, 7 nullable unions (also written null-first and without spaces) and an enum x 23 slot values (absent, null, booleans, integers at the i64/u64 boundaries, floats incl. 1.0 and 1e308, empty / plain / wrong-case / non-ASCII strings, array, object, ISO datetime, date, impossible date, numeric string) + 16 structural cases (extra / misspelled / missing keys, wrong type for a second field, non-object payloads, empty and blank context ids, undefined type, failed redefinition followed by old- and new-schema payloads) + 4 invalid DEFINEs; plus schemas with k typed fields (k in {:?}; types cycling over int, string|null, enum, float, bool, int|null) x every combination of per-slot choices (good value, value of the wrong kind, absent{}) with keys written in forward or reverse order, an undeclared key on top of all declared keys, and a misspelling of each declared key in its place; every STORE goes through parse + dispatch; afterwards QUERY and REPLAY must show exactly the accepted events, also after a clean restart, where the defined schema must still be the one in force (the refused redefinition's payload is still rejected); distinct_nontrivial = cases for which the statement fixes the expected answer", sch.len(), multi_ks, if tier == "quick" { "" } else { ", null" }),
            "samples": build_cases("t", &Ty::I64).iter().step_by(5).take(8).map(|c| json!({"cmd": c.cmd, "expected_accept": c.expect})).collect::<Vec<_>>(),
            "schemas": sch.len(),
            "layouts": layouts,
            "cases_left_open_by_the_statement": open,
            "exhaustive": true,
        }),
        assumptions: vec!["a JSON integer is a valid float value; a JSON float (even 1.0) is not a valid integer value; date-only strings for datetime fields and numeric strings for time fields are not judged".into()],
        wall_s: t0.elapsed().as_secs_f64(),
        violations: nv,
    });
    if nv == 0 { 0 } else { 1 }
}
