//! Independent decoding of the three response encodings.
use serde::{Deserialize, Serialize};
use serde_json::{Map, Value};

#[derive(Debug, Clone, Default, Serialize, Deserialize, PartialEq)]
pub struct Reply {
    /// HTTP-style status; streaming replies without an explicit status are 200.
    pub status: u16,
    pub message: String,
    /// column name, logical type
    pub columns: Vec<(String, String)>,
    /// each row as column -> value
    pub rows: Vec<Map<String, Value>>,
    /// row count announced by the end frame (streaming) or `count` (plain)
    pub announced: Option<u64>,
    pub streaming: bool,
    /// plain (non-streaming) `results` array
    pub results: Vec<Value>,
    /// harness-level failure (parse error, io error, undecodable bytes)
    pub failure: Option<String>,
}

impl Reply {
    pub fn failed(msg: String) -> Self {
        Reply { status: 0, failure: Some(msg), ..Default::default() }
    }
    pub fn ok(&self) -> bool {
        self.status == 200 && self.failure.is_none()
    }
    pub fn col(&self, name: &str) -> Vec<Value> {
        self.rows.iter().map(|r| r.get(name).cloned().unwrap_or(Value::Null)).collect()
    }
}

pub fn decode_json(bytes: &[u8]) -> Reply {
    let text = match std::str::from_utf8(bytes) {
        Ok(t) => t,
        Err(e) => return Reply::failed(format!("non-utf8 reply: {e}")),
    };
    let mut r = Reply::default();
    let mut saw_any = false;
    for line in text.split('\n') {
        if line.trim().is_empty() {
            continue;
        }
        let v: Value = match serde_json::from_str(line) {
            Ok(v) => v,
            Err(e) => return Reply::failed(format!("undecodable reply line {line:?}: {e}")),
        };
        saw_any = true;
        match v.get("type").and_then(|t| t.as_str()) {
            Some("schema") => {
                r.streaming = true;
                r.status = 200;
                if let Some(cols) = v.get("columns").and_then(|c| c.as_array()) {
                    r.columns = cols
                        .iter()
                        .map(|c| {
                            (
                                c.get("name").and_then(|x| x.as_str()).unwrap_or("").to_string(),
                                c.get("logical_type").and_then(|x| x.as_str()).unwrap_or("").to_string(),
                            )
                        })
                        .collect();
                }
            }
            Some("batch") => {
                if let Some(rows) = v.get("rows").and_then(|c| c.as_array()) {
                    for row in rows {
                        let mut m = Map::new();
                        if let Some(cells) = row.as_array() {
                            if cells.len() != r.columns.len() {
                                return Reply::failed(format!("row width {} != schema width {}", cells.len(), r.columns.len()));
                            }
                            for (i, c) in cells.iter().enumerate() {
                                m.insert(r.columns[i].0.clone(), c.clone());
                            }
                        }
                        r.rows.push(m);
                    }
                }
            }
            Some("row") => {
                if let Some(vals) = v.get("values").and_then(|c| c.as_object()) {
                    r.rows.push(vals.clone());
                }
            }
            Some("end") => {
                r.announced = v.get("row_count").and_then(|c| c.as_u64());
            }
            Some(other) => return Reply::failed(format!("unknown frame type {other}")),
            None => {
                r.status = v.get("status").and_then(|s| s.as_u64()).unwrap_or(0) as u16;
                r.message = v.get("message").and_then(|s| s.as_str()).unwrap_or("").to_string();
                r.announced = v.get("count").and_then(|s| s.as_u64());
                if let Some(res) = v.get("results").and_then(|s| s.as_array()) {
                    r.results = res.clone();
                }
            }
        }
    }
    if !saw_any {
        return Reply::failed("empty reply".into());
    }
    r
}
