//! C08 — pruning structures never rule out a zone that holds a matching row.
//! Component level: zones holding every multiset of <= Z values of a per-kind
//! alphabet are planned and written through the same entry points the flusher
//! uses (ZonePlanner::plan + ZoneWriter::write_all); every structure file is
//! loaded back and probed with every alphabet value (plus absent and cross-kind
//! literals) under every operator; oracle = brute-force scan of the zone.
use crate::lab::*;
use crate::sys::SysConfig;
use serde_json::{json, Value};
use snel_db::command::types::CompareOp;
use snel_db::engine::core::event::event_builder::EventBuilder;
use snel_db::engine::core::filter::surf_encoding::encode_value;
use snel_db::engine::core::filter::zone_surf_filter::ZoneSurfFilter;
use snel_db::engine::core::time::calendar_dir::{CalendarDir, GranularityPref};
use snel_db::engine::core::zone::enum_bitmap_index::EnumBitmapIndex;
use snel_db::engine::core::zone::enum_zone_pruner::EnumZonePruner;
use snel_db::engine::core::zone::zone_index::ZoneIndex;
use snel_db::engine::core::zone::zone_planner::ZonePlanner;
use snel_db::engine::core::zone::zone_writer::ZoneWriter;
use snel_db::engine::core::zone::zone_xor_index::ZoneXorFilterIndex;
use snel_db::engine::core::{EventId, FieldXorFilter, ZoneTemporalIndex};
use snel_db::engine::types::ScalarValue;
use std::collections::{BTreeMap, BTreeSet};
use std::path::{Path, PathBuf};

fn alphabets() -> Vec<(&'static str, &'static str, Vec<Value>)> {
    vec![
        ("i", "int", vec![json!(i64::MIN), json!(-1_000_000), json!(-256), json!(-3), json!(-1), json!(0), json!(1), json!(2), json!(3), json!(255), json!(256), json!(65536), json!(1i64 << 40), json!(i64::MAX)]),
        ("u", "u64", vec![json!(0), json!(1), json!(2), json!(255), json!(256), json!(65535), json!(65536), json!(1u64 << 32), json!((1u64 << 63) - 1), json!(1u64 << 63), json!((1u64 << 63) + 1), json!(u64::MAX - 1), json!(u64::MAX), json!(7)]),
        ("f", "float", vec![json!(-1e308), json!(-2.5), json!(-1.0), json!(-0.5), json!(-0.0), json!(0.0), json!(0.5), json!(1.0), json!(1.5), json!(2.0), json!(3.0), json!(1e10), json!(1e308), json!(5e-324)]),
        ("s", "string", vec![json!(""), json!("a"), json!("aa"), json!("ab"), json!("b"), json!("A"), json!("é"), json!("abc"), json!("123"), json!("1234"), json!("z"), json!("zz"), json!("~"), json!("a b")]),
        ("b", "bool", vec![json!(true), json!(false)]),
        ("e", "enum", vec![json!("x"), json!("y"), json!("z")]),
        ("d", "datetime", vec![json!(1699999199), json!(1699999200), json!(1700002799), json!(1700002800), json!(1700006399), json!(1700006400), json!(1700006401), json!(1700092799), json!(1700092800), json!(1700000000), json!(1700003600), json!(1703456000), json!(1696976000), json!(1700090000)]),
    ]
}

/// all multisets of exactly `z` indices out of n
fn multisets(n: usize, z: usize) -> Vec<Vec<usize>> {
    let mut out = Vec::new();
    fn rec(start: usize, n: usize, left: usize, cur: &mut Vec<usize>, out: &mut Vec<Vec<usize>>) {
        if left == 0 {
            out.push(cur.clone());
            return;
        }
        for i in start..n {
            cur.push(i);
            rec(i, n, left - 1, cur, out);
            cur.pop();
        }
    }
    rec(0, n, z, &mut Vec::new(), &mut out);
    out
}

fn num(v: &Value) -> Option<f64> {
    v.as_f64()
}

/// typed comparison of a stored JSON value with a literal; None = not comparable
fn cmp_vals(a: &Value, b: &Value) -> Option<std::cmp::Ordering> {
    match (a, b) {
        (Value::Number(x), Value::Number(y)) => {
            let xi = x.as_i64().map(|v| v as i128).or(x.as_u64().map(|v| v as i128));
            let yi = y.as_i64().map(|v| v as i128).or(y.as_u64().map(|v| v as i128));
            match (xi, yi) {
                (Some(p), Some(q)) => Some(p.cmp(&q)),
                _ => num(a)?.partial_cmp(&num(b)?),
            }
        }
        (Value::String(x), Value::String(y)) => Some(x.as_str().cmp(y.as_str())),
        (Value::Bool(x), Value::Bool(y)) => Some(x.cmp(y)),
        _ => None,
    }
}

struct Finding {
    class: String,
    detail: String,
}

fn cz(v: &[snel_db::engine::core::CandidateZone]) -> BTreeSet<u32> {
    v.iter().map(|c| c.zone_id).collect()
}

pub fn child(root: &str, tier: &str) -> i32 {
    let root = PathBuf::from(root);
    // VERIF_C08_Z > 3: "wide" mode - zones of that many rows in which one value sits at chosen row positions only
    let z: usize = std::env::var("VERIF_C08_Z").ok().and_then(|s| s.parse().ok()).unwrap_or(3);
    let wide = z > 3;
    // VERIF_C08_DENSE: two zones of z rows whose integer fields hold the row number (every value of a
    // 256-aligned block inside one zone: trie nodes with the full fan-out); structure part only
    let dense = std::env::var("VERIF_C08_DENSE").is_ok();
    let cfg = SysConfig { event_per_zone: z, fill_factor: 100_000, ..Default::default() };
    let cfg_path = cfg.write(&root);
    unsafe { std::env::set_var("SNELDB_CONFIG", &cfg_path) };
    crate::interpose::pin_entropy(77);
    crate::interpose::set_clock_ms(BASE_CLOCK_MS);
    let rt = tokio::runtime::Builder::new_current_thread().enable_all().build().unwrap();
    let alph = alphabets();
    let n = 14usize;
    // segments: (name, list of zones as index multisets)
    let all3 = if wide { Vec::new() } else { multisets(n, z) };
    let mut segs: Vec<(String, Vec<Vec<usize>>)> = Vec::new();
    let big: Vec<Vec<usize>> = all3.clone();
    let _ = tier;
    if dense {
        segs.push((format!("dense-{z}"), vec![(0..z).collect(), (z..2 * z).collect()]));
    } else if !wide {
        segs.push(("all-multisets".into(), big));
        segs.push(("one-zone".into(), vec![vec![0, 5, 13]]));
        segs.push(("two-zones+partial".into(), vec![vec![1, 1, 2], vec![3, 9, 9], vec![4]]));
        segs.push(("twelve-zones-mostly-matching".into(), (0..12).map(|i| vec![8 + i % 5, 9 + i % 4, 13]).collect()));
        segs.push(("eleven-zones".into(), (0..11).map(|i| vec![i, (i + 1) % n, (i + 2) % n]).collect()));
    } else {
        // rows hold alphabet position 0 except at the listed row positions (position 1 or 2): last row,
        // first row past a 64-row word, a run at the end, first row, none, last row of the first word,
        // and a partial last zone with the value in its last row
        let zone_with = |rows: usize, at: &[usize], what: usize| -> Vec<usize> { (0..rows).map(|r| if at.contains(&r) { what } else { 0 }).collect() };
        let w = 64.min(z - 1);
        let tail: Vec<usize> = (z.saturating_sub(4)..z).collect();
        let part = (z * 7 / 10).max(2);
        segs.push((
            format!("wide-{z}"),
            vec![
                zone_with(z, &[z - 1], 1),
                zone_with(z, &[w], 1),
                zone_with(z, &tail, 2),
                zone_with(z, &[0], 1),
                zone_with(z, &[], 0),
                zone_with(z, &[w - 1], 2),
                zone_with(z, &[z / 2], 2),
                zone_with(part, &[part - 1], 1),
            ],
        ));
    }
    let mut findings: Vec<Finding> = Vec::new();
    let mut probes = 0u64;
    let mut nontrivial = 0u64;
    let mut structures_loaded: BTreeMap<String, u64> = BTreeMap::new();
    let mut samples: Vec<Value> = Vec::new();
    let res: Result<(), String> = rt.block_on(async {
        let sys = crate::sys::Sys::start(cfg.clone(), &root).await;
        let define = "DEFINE w FIELDS { i: \"int\", u: \"u64\", f: \"float\", s: \"string\", b: \"bool\", e: [\"x\", \"y\", \"z\"], d: \"datetime\", od: \"datetime | null\" }";
        let r = sys.exec(define).await;
        if !r.ok() {
            return Err(format!("define failed: {} {}", r.status, r.message));
        }
        let uid = sys.registry.read().await.get_uid("w").ok_or("no uid")?;
        for (si, (sname, zones)) in segs.iter().enumerate() {
            // events in zone order; the planner cuts them into zones of z rows
            let mut events = Vec::new();
            let mut row = 0u64;
            for zone in zones {
                for idx in zone {
                    let mut payload = BTreeMap::new();
                    for (field, _, vals) in &alph {
                        payload.insert(field.to_string(), ScalarValue::from(vals[idx % vals.len()].clone()));
                    }
                    if dense {
                        payload.insert("i".to_string(), ScalarValue::from(json!(*idx as i64)));
                        payload.insert("u".to_string(), ScalarValue::from(json!(*idx as u64)));
                    }
                    let ts = alph[6].2[idx % 14].as_u64().unwrap();
                    let eb = EventBuilder { event_type: "w".into(), context_id: if wide { format!("ctx{row:06}") } else { format!("ctx{}", idx % 5) }, timestamp: ts, event_id: EventId::from_raw(1000 + row), payload };
                    events.push(eb.build());
                    row += 1;
                }
            }
            let seg_id = 100 + si as u64;
            let dir = root.join(format!("segs/{seg_id:05}"));
            std::fs::create_dir_all(&dir).map_err(|e| e.to_string())?;
            let plans = ZonePlanner::new(&uid, seg_id).plan(&events).map_err(|e| format!("{e:?}"))?;
            ZoneWriter::new(&uid, &dir, sys.registry.clone()).write_all(&plans).await.map_err(|e| format!("write_all: {e:?}"))?;
            // ground truth from the plans themselves
            let zone_vals = |field: &str| -> BTreeMap<u32, Vec<Value>> {
                plans
                    .iter()
                    .map(|p| {
                        (
                            p.id,
                            p.events
                                .iter()
                                .map(|e| match field {
                                    "timestamp" => json!(e.timestamp),
                                    "context_id" => json!(e.context_id),
                                    _ => e.payload.get(field).map(|v| v.to_json()).unwrap_or(Value::Null),
                                })
                                .collect(),
                        )
                    })
                    .collect()
            };
            if samples.len() < 4 {
                samples.push(json!({"segment": sname, "zones": plans.len(), "first_zone_i_values": zone_vals("i").values().next()}));
            }
            let seg = format!("{seg_id:05}");
            for (field, kind, vals) in &alph {
                let truth = zone_vals(field);
                // probe literals: the alphabet, absent values, literals of another numeric kind
                let mut lits: Vec<Value> = vals.clone();
                match *kind {
                    "int" => lits.extend([json!(4), json!(-2), json!(2.5), json!(-0.5), json!(1e300), json!(100), json!(299), json!(300), json!(511), json!(512)]),
                    "u64" => lits.extend([json!(3), json!(-1), json!(2.5), json!(100), json!(299), json!(300), json!(511), json!(512)]),
                    "float" => lits.extend([json!(2), json!(-3), json!(0.25), json!(1000000)]),
                    "string" => lits.extend([json!("aaa"), json!("B"), json!("zzz"), json!("0")]),
                    "datetime" => lits.extend([json!(1699990000), json!(1700100000)]),
                    _ => {}
                }
                // --- SuRF (range bounds)
                let zsrf = dir.join(format!("{uid}_{field}.zsrf"));
                if zsrf.exists() {
                    let f = ZoneSurfFilter::load(&zsrf).map_err(|e| format!("load zsrf {field}: {e}"))?;
                    *structures_loaded.entry("zone_surf".into()).or_insert(0) += 1;
                    for lit in &lits {
                        let Some(bytes) = encode_value(&ScalarValue::from(lit.clone())) else { continue };
                        for (opname, ge, incl) in [(">=", true, true), (">", true, false), ("<=", false, true), ("<", false, false)] {
                            probes += 1;
                            let got = if ge { cz(&f.zones_overlapping_ge(&bytes, incl, &seg)) } else { cz(&f.zones_overlapping_le(&bytes, incl, &seg)) };
                            let mut any_match = false;
                            for (zid, zv) in &truth {
                                let matches = zv.iter().any(|v| match cmp_vals(v, lit) {
                                    Some(o) => match (ge, incl) {
                                        (true, true) => o != std::cmp::Ordering::Less,
                                        (true, false) => o == std::cmp::Ordering::Greater,
                                        (false, true) => o != std::cmp::Ordering::Greater,
                                        (false, false) => o == std::cmp::Ordering::Less,
                                    },
                                    None => false,
                                });
                                if matches {
                                    any_match = true;
                                    if !got.contains(zid) {
                                        let litkind = if lit.is_f64() { "float literal" } else if lit.is_number() { "integer literal" } else { "string literal" };
                                        findings.push(Finding { class: format!("zone SuRF on a {kind} column: {opname} {litkind}"), detail: format!("segment {sname} field {field}: zone {zid} holds {zv:?}, probe {opname} {lit} does not list it") });
                                    }
                                }
                            }
                            if any_match && got.len() < truth.len() {
                                nontrivial += 1;
                            }
                        }
                    }
                }
                // --- per-zone membership filter
                let zxf = ZoneXorFilterIndex::file_path(&dir, &uid, field);
                if zxf.exists() {
                    let f = ZoneXorFilterIndex::load(&zxf).map_err(|e| format!("load zxf {field}: {e}"))?;
                    *structures_loaded.entry("zone_xor".into()).or_insert(0) += 1;
                    for lit in &lits {
                        probes += 1;
                        let got: BTreeSet<u32> = f.zones_maybe_containing(&ScalarValue::from(lit.clone())).into_iter().collect();
                        for (zid, zv) in &truth {
                            if zv.iter().any(|v| cmp_vals(v, lit) == Some(std::cmp::Ordering::Equal)) {
                                nontrivial += 1;
                                if !got.contains(zid) {
                                    let litkind = if lit.is_f64() { "float literal" } else if lit.is_number() { "integer literal" } else { "string literal" };
                                    findings.push(Finding { class: format!("per-zone membership filter on a {kind} column: = {litkind}"), detail: format!("segment {sname} field {field}: zone {zid} holds {zv:?}, probe = {lit} does not list it") });
                                }
                            }
                        }
                    }
                }
                // --- per-field membership filter
                let xf = dir.join(format!("{uid}_{field}.xf"));
                if xf.exists() {
                    let f = FieldXorFilter::load(&xf).map_err(|e| format!("load xf {field}: {e}"))?;
                    *structures_loaded.entry("field_xor".into()).or_insert(0) += 1;
                    for lit in &lits {
                        probes += 1;
                        let present = truth.values().flatten().any(|v| cmp_vals(v, lit) == Some(std::cmp::Ordering::Equal));
                        if present {
                            nontrivial += 1;
                            if !f.contains_value(&ScalarValue::from(lit.clone())) {
                                let litkind = if lit.is_f64() { "float literal" } else if lit.is_number() { "integer literal" } else { "string literal" };
                                findings.push(Finding { class: format!("per-field membership filter on a {kind} column: = {litkind}"), detail: format!("segment {sname} field {field}: value {lit} is stored but the filter says absent") });
                            }
                        }
                    }
                }
                // --- enum bitmaps
                let ebm = dir.join(format!("{uid}_{field}.ebm"));
                if ebm.exists() {
                    let idx = EnumBitmapIndex::load(&ebm).map_err(|e| format!("load ebm: {e}"))?;
                    *structures_loaded.entry("enum_bitmap".into()).or_insert(0) += 1;
                    let pr = EnumZonePruner { segment_id: &seg, ebm: &idx };
                    for (vid, variant) in idx.variants.iter().enumerate() {
                        for (op, opname) in [(CompareOp::Eq, "="), (CompareOp::Neq, "!=")] {
                            probes += 1;
                            let got = cz(&pr.prune(&op, vid));
                            for (zid, zv) in &truth {
                                let m = zv.iter().any(|v| if opname == "=" { v.as_str() == Some(variant.as_str()) } else { v.as_str().map_or(false, |s| s != variant) });
                                if m {
                                    nontrivial += 1;
                                    if !got.contains(zid) {
                                        findings.push(Finding { class: format!("enum bitmap: {opname} variant"), detail: format!("segment {sname}: zone {zid} holds {zv:?}, probe {opname} {variant} does not list it") });
                                    }
                                }
                            }
                        }
                    }
                }
                // --- per-zone time index of a datetime field
                if *kind == "datetime" && dir.join(format!("{uid}_{field}.tfi")).exists() {
                    for (zid, zv) in &truth {
                        if let Ok(zti) = ZoneTemporalIndex::load_for_field(&uid, field, *zid, &dir) {
                            *structures_loaded.entry("zone_temporal".into()).or_insert(0) += 1;
                            for v in zv {
                                probes += 1;
                                nontrivial += 1;
                                if let Some(ts) = v.as_i64() {
                                    if !zti.contains_ts(ts) {
                                        findings.push(Finding { class: "per-zone time index: contains".into(), detail: format!("segment {sname} field {field}: zone {zid} holds {ts} but contains_ts says no") });
                                    }
                                }
                            }
                        }
                    }
                }
            }
            // --- calendar of the core timestamp (hour / day buckets)
            if let Ok(cal) = CalendarDir::load(&uid, &dir) {
                *structures_loaded.entry("calendar".into()).or_insert(0) += 1;
                let truth = zone_vals("timestamp");
                for (zid, zv) in &truth {
                    for v in zv {
                        let ts = v.as_u64().unwrap();
                        for (g, gname) in [(GranularityPref::Hour, "hour"), (GranularityPref::Day, "day")] {
                            probes += 1;
                            nontrivial += 1;
                            if !cal.zones_for(ts, g).contains(*zid) {
                                findings.push(Finding { class: format!("calendar ({gname} buckets)"), detail: format!("segment {sname}: zone {zid} holds timestamp {ts} but is not listed in its {gname} bucket") });
                            }
                        }
                    }
                }
            }
            // --- context index
            let idxp = dir.join(format!("{uid}.idx"));
            if idxp.exists() {
                let zi = ZoneIndex::load_from_path(&idxp).map_err(|e| format!("load idx: {e:?}"))?;
                *structures_loaded.entry("context_index".into()).or_insert(0) += 1;
                let truth = zone_vals("context_id");
                for c in 0..6 {
                    let ctx = format!("ctx{c}");
                    probes += 1;
                    let got = cz(&zi.find_candidate_zones("w", Some(&ctx), &seg));
                    for (zid, zv) in &truth {
                        if zv.iter().any(|v| v.as_str() == Some(ctx.as_str())) {
                            nontrivial += 1;
                            if !got.contains(zid) {
                                findings.push(Finding { class: "context index".into(), detail: format!("segment {sname}: zone {zid} holds context {ctx} but is not listed") });
                            }
                        }
                    }
                }
                let all = cz(&zi.find_candidate_zones("w", None, &seg));
                probes += 1;
                if all.len() != truth.len() {
                    findings.push(Finding { class: "context index".into(), detail: format!("segment {sname}: {} of {} zones listed without a context", all.len(), truth.len()) });
                }
            }
        }
        // ---------------------------------------------------------------------------------
        // pipeline part: the same kinds of zones, flushed by the real shard, probed through
        // the real planner + pruners (QueryPlan -> ExecutionSteps -> ZoneCollector)
        // ---------------------------------------------------------------------------------
        let step = if tier == "quick" { 5 } else { 1 };
        let pipe_segs: Vec<(String, Vec<Vec<usize>>)> = if dense {
            Vec::new()
        } else if wide {
            segs.clone()
        } else {
            vec![
                ("multisets".into(), all3.iter().step_by(step).cloned().collect()),
                ("one-zone".into(), vec![vec![0, 5, 13]]),
                ("two-zones+partial".into(), vec![vec![1, 1, 2], vec![3, 9, 9], vec![4]]),
                ("twelve-zones-mostly-matching".into(), (0..12).map(|i| vec![8 + i % 5, 9 + i % 4, 13]).collect()),
            ]
        };
        // (segment label, zone id) -> rows (alphabet indices)
        let mut truth_idx: BTreeMap<(String, u32), Vec<usize>> = BTreeMap::new();
        let mut seg_labels = Vec::new();
        for (si, (_sname, zones)) in pipe_segs.iter().enumerate() {
            for (zi, zone) in zones.iter().enumerate() {
                for idx in zone {
                    let mut payload = serde_json::Map::new();
                    for (field, _, vals) in &alph {
                        payload.insert(field.to_string(), vals[idx % vals.len()].clone());
                    }
                    // optional instant: every row of an even zone lacks it (a zone without any value
                    // in front of zones that have some), odd zones carry the value of `d`
                    if zi % 2 == 1 {
                        payload.insert("od".to_string(), alph[6].2[idx % 14].clone());
                    }
                    let r = sys.exec(&format!("STORE w FOR pc PAYLOAD {}", Value::Object(payload))).await;
                    if !r.ok() {
                        return Err(format!("pipeline STORE failed: {} {}", r.status, r.message));
                    }
                }
                truth_idx.insert((format!("{si:05}"), zi as u32), zone.clone());
            }
            sys.barrier().await;
            let fl = sys.flush_sequential().await;
            if fl.iter().any(|(_, m)| !m.is_empty() && !m.to_lowercase().contains("ok") && !m.to_lowercase().contains("flush")) {
                return Err(format!("pipeline flush: {fl:?}"));
            }
            sys.barrier().await;
            seg_labels.push(format!("{si:05}"));
        }
        let base = root.join("cols/shard-0");
        for l in &seg_labels {
            if !base.join(l).is_dir() {
                return Err(format!("pipeline: expected segment {l} under {}", base.display()));
            }
        }
        let seg_ids = std::sync::Arc::new(std::sync::RwLock::new(seg_labels.clone()));
        // zone layout check: the flushed zone metadata must agree with the intended chunks
        {
            let cmd = snel_db::command::parser::parse_command("QUERY w").map_err(|e| format!("{e:?}"))?;
            let plan = snel_db::engine::core::QueryPlan::new(cmd, &sys.registry, &base, &seg_ids, None).await.ok_or("no plan")?;
            let exec = snel_db::engine::core::QueryExecution::new(&plan);
            let zones = snel_db::engine::core::zone::zone_collector::ZoneCollector::new(&plan, exec.steps().to_vec()).collect_zones();
            let got: BTreeSet<(String, u32)> = zones.iter().map(|z| (z.segment_id.clone(), z.zone_id)).collect();
            let want: BTreeSet<(String, u32)> = truth_idx.keys().cloned().collect();
            if got != want {
                return Err(format!("pipeline: unfiltered zone set {} differs from the intended layout {}", got.len(), want.len()));
            }
        }
        for (field, kind, vals) in &alph {
            let mut lits: Vec<Value> = vals.clone();
            match *kind {
                "int" => lits.extend([json!(4), json!(-2), json!(2.5), json!(-0.5)]),
                "u64" => lits.extend([json!(3), json!(2.5)]),
                "float" => lits.extend([json!(2), json!(-3), json!(0.25), json!(1000000)]),
                "string" => lits.extend([json!("aaa"), json!("B"), json!("zzz"), json!("0")]),
                "datetime" => lits.extend([json!(1699990000), json!(1700100000)]),
                _ => {}
            }
            let ops: Vec<&str> = match *kind {
                "bool" | "enum" => vec!["=", "!="],
                _ => vec!["=", "!=", "<", "<=", ">", ">="],
            };
            for lit in &lits {
                // literals the grammar cannot express are skipped (u64 >= 2^63 is a listed C02 finding)
                let lit_txt = match lit {
                    Value::String(x) => format!("{:?}", x),
                    o => o.to_string(),
                };
                for op in &ops {
                    let text = format!("QUERY w WHERE {field} {op} {lit_txt}");
                    let Ok(cmd) = snel_db::command::parser::parse_command(&text) else { continue };
                    let Some(plan) = snel_db::engine::core::QueryPlan::new(cmd, &sys.registry, &base, &seg_ids, None).await else { continue };
                    let exec = snel_db::engine::core::QueryExecution::new(&plan);
                    let zones = snel_db::engine::core::zone::zone_collector::ZoneCollector::new(&plan, exec.steps().to_vec()).collect_zones();
                    let got: BTreeSet<(String, u32)> = zones.iter().map(|z| (z.segment_id.clone(), z.zone_id)).collect();
                    probes += 1;
                    let mut any = false;
                    let mut missed: Vec<String> = Vec::new();
                    for (key, rows) in &truth_idx {
                        let m = rows.iter().any(|idx| {
                            let v = &vals[idx % vals.len()];
                            match cmp_vals(v, lit) {
                                Some(o) => match *op {
                                    "=" => o == std::cmp::Ordering::Equal,
                                    "!=" => o != std::cmp::Ordering::Equal,
                                    "<" => o == std::cmp::Ordering::Less,
                                    "<=" => o != std::cmp::Ordering::Greater,
                                    ">" => o == std::cmp::Ordering::Greater,
                                    _ => o != std::cmp::Ordering::Less,
                                },
                                None => false,
                            }
                        });
                        if m {
                            any = true;
                            if !got.contains(key) {
                                missed.push(format!("{}:{}", key.0, key.1));
                            }
                        }
                    }
                    if any && got.len() < truth_idx.len() {
                        nontrivial += 1;
                    }
                    if !missed.is_empty() {
                        let litkind = if lit.is_f64() { "float literal" } else if lit.is_number() { "integer literal" } else { "string literal" };
                        let opk = match *op {
                            "=" => "=",
                            "!=" => "!=",
                            _ => "range",
                        };
                        findings.push(Finding {
                            class: format!("planner + pruners on flushed segments: {kind} column, {opk}, {litkind}"),
                            detail: format!("{text}: {} zones holding a match are not candidates, e.g. {:?}", missed.len(), missed.iter().take(3).collect::<Vec<_>>()),
                        });
                    }
                }
            }
        }
        {
            let vals = &alph[6].2;
            let mut lits: Vec<Value> = vals.clone();
            lits.extend([json!(1699990000), json!(1700100000)]);
            for lit in &lits {
                for op in ["=", "<", "<=", ">", ">="] {
                    let text = format!("QUERY w WHERE od {op} {lit}");
                    let Ok(cmd) = snel_db::command::parser::parse_command(&text) else { continue };
                    let Some(plan) = snel_db::engine::core::QueryPlan::new(cmd, &sys.registry, &base, &seg_ids, None).await else { continue };
                    let exec = snel_db::engine::core::QueryExecution::new(&plan);
                    let zones = snel_db::engine::core::zone::zone_collector::ZoneCollector::new(&plan, exec.steps().to_vec()).collect_zones();
                    let got: BTreeSet<(String, u32)> = zones.iter().map(|z| (z.segment_id.clone(), z.zone_id)).collect();
                    probes += 1;
                    let mut missed: Vec<String> = Vec::new();
                    for (key, rows) in &truth_idx {
                        if key.1 % 2 == 0 {
                            continue; // no row of an even zone has the field
                        }
                        let m = rows.iter().any(|idx| match cmp_vals(&vals[idx % vals.len()], lit) {
                            Some(o) => match op {
                                "=" => o == std::cmp::Ordering::Equal,
                                "<" => o == std::cmp::Ordering::Less,
                                "<=" => o != std::cmp::Ordering::Greater,
                                ">" => o == std::cmp::Ordering::Greater,
                                _ => o != std::cmp::Ordering::Less,
                            },
                            None => false,
                        });
                        if m {
                            nontrivial += 1;
                            if !got.contains(key) {
                                missed.push(format!("{}:{}", key.0, key.1));
                            }
                        }
                    }
                    if !missed.is_empty() {
                        findings.push(Finding {
                            class: format!("planner + pruners on flushed segments: optional datetime column (absent in every second zone), {}", if op == "=" { "=" } else { "range" }),
                            detail: format!("{text}: {} zones holding a match are not candidates, e.g. {:?}", missed.len(), missed.iter().take(3).collect::<Vec<_>>()),
                        });
                    }
                }
            }
        }
        *structures_loaded.entry("pipeline_segments".into()).or_insert(0) += seg_labels.len() as u64;
        *structures_loaded.entry("pipeline_zones".into()).or_insert(0) += truth_idx.len() as u64;
        Ok(())
    });
    if let Err(e) = res {
        eprintln!("{e}");
        return 2;
    }
    let mut by_class: BTreeMap<String, (usize, String)> = BTreeMap::new();
    let mut all_details: BTreeMap<String, Vec<String>> = BTreeMap::new();
    for f in &findings {
        let e = by_class.entry(f.class.clone()).or_insert((0, f.detail.clone()));
        e.0 += 1;
        all_details.entry(f.class.clone()).or_default().push(f.detail.clone());
    }
    let digests: BTreeMap<String, String> = all_details
        .into_iter()
        .map(|(k, mut v)| {
            v.sort();
            (k, crate::golden::digest(&v.join("\n")))
        })
        .collect();
    let out = json!({
        "digests": digests,
        "probes": probes,
        "nontrivial": nontrivial,
        "structures": structures_loaded,
        "samples": samples,
        "findings": by_class.iter().map(|(k, v)| json!({"class": k, "count": v.0, "example": v.1})).collect::<Vec<_>>(),
    });
    println!("{out}");
    std::mem::forget(rt);
    0
}

pub fn check(tier: &str) -> i32 {
    let t0 = std::time::Instant::now();
    let kf = crate::known::load();
    let scratch = Scratch::new("c08");
    let exe = crate::explore::self_exe();
    // zones of 3 rows (every multiset), then wide zones (one value at chosen row positions)
    let widths: Vec<usize> = if tier == "quick" { vec![3, 100] } else { vec![3, 65, 72, 100, 129, 257] };
    // the last entry (marked by usize::MAX - rows) is the dense mode: zones of 300 rows holding row numbers
    let mut widths = widths;
    widths.push(usize::MAX - 300);
    let outs = crate::lab::par_map(&widths, crate::lab::threads(), |_, w| {
        let mut c = std::process::Command::new(&exe);
        c.arg("c08child").arg(scratch.dir.join(format!("db{w}"))).arg(tier).env_remove("SNELDB_CONFIG").env("RAYON_NUM_THREADS", "1");
        if *w > 1_000_000 {
            c.env("VERIF_C08_Z", (usize::MAX - *w).to_string()).env("VERIF_C08_DENSE", "1");
        } else {
            c.env("VERIF_C08_Z", w.to_string());
        }
        c.output()
    });
    let mut failing: Vec<crate::golden::Failing> = Vec::new();
    let mut v = json!({});
    let mut wide_cov = Vec::new();
    for (w, out) in widths.iter().zip(outs) {
        let out = match out {
            Ok(o) if o.status.success() => o,
            Ok(o) => {
                eprintln!("MACHINERY: c08 child (zones of {w} rows) failed: {}", String::from_utf8_lossy(&o.stderr).chars().take(1500).collect::<String>());
                return 2;
            }
            Err(e) => {
                eprintln!("MACHINERY: {e}");
                return 2;
            }
        };
        let vw: Value = match serde_json::from_slice(out.stdout.split(|b| *b == b'\n').filter(|l| l.starts_with(b"{")).last().unwrap_or(&[])) {
            Ok(v) => v,
            Err(e) => {
                eprintln!("MACHINERY: bad child output: {e}");
                return 2;
            }
        };
        let prefix = if *w == 3 { String::new() } else if *w > 1_000_000 { format!("dense zones of {} rows: ", usize::MAX - *w) } else { format!("zones of {w} rows: ") };
        for f in vw["findings"].as_array().cloned().unwrap_or_default() {
            let class0 = f["class"].as_str().unwrap_or("").to_string();
            let class = format!("{prefix}{class0}");
            failing.push(crate::golden::Failing { key: class.clone(), digest: vw["digests"][&class0].as_str().unwrap_or("").to_string(), class, detail: f.clone() });
        }
        if *w == 3 {
            v = vw;
        } else {
            wide_cov.push(json!({"rows_per_zone": if *w > 1_000_000 { format!("{} (dense: integer fields hold the row number)", usize::MAX - *w) } else { w.to_string() }, "probes": vw["probes"], "nontrivial": vw["nontrivial"], "structures": vw["structures"]}));
        }
    }
    let verdict = crate::golden::judge("C08", tier, &failing);
    let nv = crate::golden::report("C08", &verdict, &|_| kf.describe("C08", "golden"), 8);
    write_evidence(&Evidence {
        property_id: "C08".into(),
        tier: tier.into(),
        seed: seed(),
        level: "exploration".into(),
        coverage: json!({
            "evaluations": v["probes"],
            "distinct_nontrivial": v["nontrivial"],
            "rule": "zones of 3 rows holding every multiset of 3 positions of a 14-value alphabet per kind (signed ints across byte boundaries and both extremes, u64 around 2^63 and 2^64, floats incl. -0.0 / 5e-324 / 1e308, strings incl. empty / prefix-related / non-ASCII / numeric-looking, bools, enum variants, instants on hour and day boundaries and two instants 35 / 40 days away, so that some zones span more than a month while others cover the same hours narrowly; quick: every third multiset) plus segments of 1, 3 (last partial), 11 and 12 zones; planned and written through ZonePlanner::plan + ZoneWriter::write_all (what a flush does per event type); each structure file that exists is loaded and probed: zone SuRF (>=, >, <=, < with every alphabet value, absent values and literals of another numeric kind, encoded as the range pruner encodes them), per-zone and per-field membership filters (=), enum bitmaps (=, != per variant), calendar hour/day buckets and per-zone time index (every stored instant), context index; then the same kinds of zones are STOREd and FLUSHed through the real shard (segments of many, 1, 3 and 12 zones in one shard) and every probe `field op literal` (=, !=, <, <=, >, >= x the alphabet, absent values and literals of another numeric kind) is planned by the real QueryPlan and answered by the real ZoneCollector (index strategy choice + pruners + combination): every (segment, zone) holding a matching row must be among the candidates; oracle = brute-force scan of the zone's values with a typed comparison; distinct_nontrivial = probes for which some zone holds a match and (for range probes) the structure excluded at least one zone",
            "samples": v["samples"],
            "structure_files_loaded": v["structures"],
            "wide_zones": wide_cov,
            "wide_zones_rule": "the same structure and pipeline probes on a segment of seven full zones and one partial zone of w rows in which every row holds alphabet position 0 except chosen rows (last row, row 64, row 63, the last four rows, row 0, the middle row, none; last row of the partial zone), so that a value is present only beyond a machine-word boundary of a per-row bitmap",
            "exhaustive": true,
        }),
        assumptions: vec!["literals are turned into probe keys exactly as RangePruner does (surf_encoding::encode_value of the literal's scalar)".into(), "the per-field temporal calendar (TemporalCalendarIndex::zones_intersecting is private) is covered end to end by C02 / C16 only".into()],
        wall_s: t0.elapsed().as_secs_f64(),
        violations: nv,
    });
    if nv == 0 { 0 } else { 1 }
}
