//! Shared parent-side pieces: event model, reference database, observation
//! suite, multi-lifetime history runner, work pool, evidence output.
use crate::decode::Reply;
use crate::explore::{run_child, work_root};
use crate::job::{Job, JobResult, Op, SnapMode};
use crate::sys::SysConfig;
use serde::{Deserialize, Serialize};
use serde_json::{json, Value};
use std::collections::BTreeMap;
use std::path::{Path, PathBuf};
use std::sync::atomic::{AtomicUsize, Ordering};
use std::sync::Mutex;

pub const BASE_CLOCK_MS: i64 = 1_700_000_000_000;

#[derive(Debug, Clone, PartialEq, Eq, Serialize, Deserialize, PartialOrd, Ord)]
pub struct Ev {
    pub k: i64,
    pub typ: String,
    pub ctx: String,
}

impl Ev {
    /// an integer above 2^53 and a float that is not a short decimal: values that do not
    /// survive a detour through f64 / f32 / a lossy text form
    pub fn big(&self) -> i64 {
        9_007_199_254_740_993 + self.k
    }
    pub fn frac(&self) -> f64 {
        self.k as f64 + 0.1
    }
    pub fn store_cmd(&self) -> String {
        format!("STORE {} FOR {} PAYLOAD {{\"k\":{},\"s\":\"v{}\",\"t{}\":1,\"n\":{},\"f\":{:?}}}", self.typ, self.ctx, self.k, self.k, self.typ, self.big(), self.frac())
    }
    /// what `parse_obs` reports in the payload slot of `Obs::detail` for an intact row
    pub fn payload_sig(&self) -> String {
        format!("v{}|{}|{:?}", self.k, self.big(), self.frac())
    }
}

pub fn define_cmd(typ: &str) -> String {
    format!("DEFINE {typ} FIELDS {{ k: \"int\", s: \"string\", t{typ}: \"int\", n: \"int\", f: \"float\" }}")
}

/// Parallel map on `threads` OS threads, preserving order.
pub fn par_map<T: Send + Sync, R: Send>(items: &[T], threads: usize, f: impl Fn(usize, &T) -> R + Sync) -> Vec<R> {
    let next = AtomicUsize::new(0);
    let out: Mutex<Vec<Option<R>>> = Mutex::new((0..items.len()).map(|_| None).collect());
    std::thread::scope(|s| {
        for _ in 0..threads.max(1).min(items.len().max(1)) {
            s.spawn(|| loop {
                let i = next.fetch_add(1, Ordering::SeqCst);
                if i >= items.len() {
                    break;
                }
                let r = f(i, &items[i]);
                out.lock().unwrap()[i] = Some(r);
            });
        }
    });
    out.into_inner().unwrap().into_iter().map(|x| x.unwrap()).collect()
}

pub fn threads() -> usize {
    std::env::var("VERIF_THREADS").ok().and_then(|s| s.parse().ok()).unwrap_or(16)
}

/// Scratch directory for one check run; removed on drop.
pub struct Scratch {
    pub dir: PathBuf,
}
impl Scratch {
    pub fn new(name: &str) -> Self {
        // deterministic name: absolute paths are hashed inside the engine (path-keyed caches)
        let dir = work_root().join(name);
        let _ = std::fs::remove_dir_all(&dir);
        std::fs::create_dir_all(&dir).expect("scratch dir");
        Scratch { dir }
    }
}
impl Drop for Scratch {
    fn drop(&mut self) {
        if std::env::var("VERIF_KEEP").is_ok() {
            return;
        }
        let _ = std::fs::remove_dir_all(&self.dir);
    }
}

// ---------------------------------------------------------------------------
// observation suite
// ---------------------------------------------------------------------------

pub fn suite(types: &[&str], ctxs: &[&str]) -> Vec<String> {
    let mut q = Vec::new();
    for t in types {
        q.push(format!("QUERY {t}"));
        q.push(format!("QUERY {t} WHERE t{t} = 1 COUNT"));
    }
    // typed REPLAY, context i paired with type i: the wildcard form (REPLAY FOR c)
    // has its own defect, which is reported once, under C04
    for (i, c) in ctxs.iter().enumerate() {
        q.push(format!("REPLAY {} FOR {c}", types[i % types.len()]));
    }
    q
}

#[derive(Debug, Clone, Default, PartialEq, Serialize, Deserialize)]
pub struct Obs {
    /// per type: keys returned by the selection, sorted
    pub query: BTreeMap<String, Vec<i64>>,
    /// per type: COUNT
    pub count: BTreeMap<String, i64>,
    /// per context: (type, k) in returned order
    pub replay: BTreeMap<String, Vec<(String, i64)>>,
    /// per event key: (type, ctx, s) as returned by QUERY (payload integrity)
    pub detail: BTreeMap<i64, Vec<(String, String, String)>>,
    pub errors: Vec<String>,
}

fn reply_rows_ok(r: &Reply, what: &str, errors: &mut Vec<String>) -> bool {
    if let Some(f) = &r.failure {
        errors.push(format!("{what}: {f}"));
        return false;
    }
    if r.status != 200 {
        // "No matching events" style replies are not errors
        if r.status == 404 || r.message.to_lowercase().contains("no matching") {
            return false;
        }
        errors.push(format!("{what}: status {} {}", r.status, r.message));
        return false;
    }
    if r.streaming {
        if let Some(a) = r.announced {
            if a as usize != r.rows.len() {
                errors.push(format!("{what}: announced {} rows, emitted {}", a, r.rows.len()));
            }
        }
    }
    true
}

pub fn parse_obs(replies: &[Reply], types: &[&str], ctxs: &[&str]) -> Obs {
    let mut o = Obs::default();
    let mut i = 0;
    for t in types {
        let r = &replies[i];
        i += 1;
        let mut ks = Vec::new();
        if reply_rows_ok(r, &format!("QUERY {t}"), &mut o.errors) {
            for row in &r.rows {
                match row.get("k").and_then(|v| v.as_i64()) {
                    Some(k) => {
                        ks.push(k);
                        let s = format!(
                            "{}|{}|{}",
                            row.get("s").and_then(|v| v.as_str()).unwrap_or("<none>"),
                            row.get("n").map(|v| v.to_string()).unwrap_or("<none>".into()),
                            row.get("f").and_then(|v| v.as_f64()).map(|f| format!("{f:?}")).unwrap_or("<none>".into())
                        );
                        let c = row.get("context_id").and_then(|v| v.as_str()).unwrap_or("<none>").to_string();
                        let ty = row.get("event_type").and_then(|v| v.as_str()).unwrap_or("<none>").to_string();
                        o.detail.entry(k).or_default().push((ty, c, s));
                    }
                    None => o.errors.push(format!("QUERY {t}: row without integer k: {row:?}")),
                }
            }
        }
        ks.sort();
        o.query.insert(t.to_string(), ks);
        let r = &replies[i];
        i += 1;
        let mut c = 0;
        if reply_rows_ok(r, &format!("QUERY {t} COUNT"), &mut o.errors) {
            match r.rows.first().and_then(|row| row.get("count")).and_then(|v| v.as_i64()) {
                Some(n) => c = n,
                None => {
                    if !r.rows.is_empty() {
                        o.errors.push(format!("QUERY {t} COUNT: undecodable {:?}", r.rows));
                    }
                }
            }
        }
        o.count.insert(t.to_string(), c);
    }
    for c in ctxs {
        let r = &replies[i];
        i += 1;
        let mut seq = Vec::new();
        if reply_rows_ok(r, &format!("REPLAY FOR {c}"), &mut o.errors) {
            for row in &r.rows {
                let ty = row.get("event_type").and_then(|v| v.as_str()).unwrap_or("<none>").to_string();
                match row.get("k").and_then(|v| v.as_i64()) {
                    Some(k) => seq.push((ty, k)),
                    None => o.errors.push(format!("REPLAY FOR {c}: row without integer k: {row:?}")),
                }
                if row.get("context_id").and_then(|v| v.as_str()) != Some(*c) {
                    o.errors.push(format!("REPLAY FOR {c}: foreign row {row:?}"));
                }
            }
        }
        o.replay.insert(c.to_string(), seq);
    }
    o
}

/// multiplicity of each key over all types in the selection answers
pub fn mult(o: &Obs) -> BTreeMap<i64, usize> {
    let mut m = BTreeMap::new();
    for ks in o.query.values() {
        for k in ks {
            *m.entry(*k).or_insert(0) += 1;
        }
    }
    m
}

// ---------------------------------------------------------------------------
// evidence
// ---------------------------------------------------------------------------

#[derive(Debug, Clone, Serialize, Deserialize, Default)]
pub struct Evidence {
    pub property_id: String,
    pub tier: String,
    pub seed: i64,
    pub level: String,
    pub coverage: Value,
    pub assumptions: Vec<String>,
    pub wall_s: f64,
    pub violations: i64,
}

pub fn write_evidence(ev: &Evidence) {
    if ev.violations == 0 {
        clear_replays(&ev.property_id);
    }
    let dir = Path::new("/verif/evidence");
    let _ = std::fs::create_dir_all(dir);
    let p = dir.join(format!("{}.json", ev.property_id));
    std::fs::write(&p, serde_json::to_string_pretty(ev).unwrap()).expect("write evidence");
}

pub fn write_replay(prop: &str, body: &Value) -> String {
    use sha2::{Digest, Sha256};
    let dir = Path::new("/verif/replays");
    let _ = std::fs::create_dir_all(dir);
    let text = serde_json::to_string_pretty(body).unwrap();
    let h = hex::encode(&Sha256::digest(text.as_bytes())[..6]);
    let p = dir.join(format!("{prop}-{h}.json"));
    std::fs::write(&p, text).expect("write replay");
    p.to_string_lossy().into_owned()
}

/// remove replay files of earlier runs of this property
pub fn clear_replays(prop: &str) {
    if let Ok(rd) = std::fs::read_dir("/verif/replays") {
        for e in rd.flatten() {
            if e.file_name().to_string_lossy().starts_with(&format!("{prop}-")) {
                let _ = std::fs::remove_file(e.path());
            }
        }
    }
}

pub fn tier() -> String {
    std::env::var("VERIF_TIER").unwrap_or_else(|_| "quick".into())
}
pub fn seed() -> i64 {
    std::env::var("VERIF_SEED").ok().and_then(|s| s.parse().ok()).unwrap_or(1)
}

// ---------------------------------------------------------------------------
// multi-lifetime histories
// ---------------------------------------------------------------------------

#[derive(Debug, Clone, Serialize, Deserialize)]
pub struct LifeSpec {
    pub ops: Vec<Op>,
    pub snap: SnapMode,
    pub fsmon: bool,
}

/// Like `run_lifetimes`, with the clock step per operation chosen by the caller.
pub fn run_lifetimes_clock(dir: &Path, cfg: &SysConfig, entropy: u64, lives: &[LifeSpec], clock_step_ms: i64) -> Result<Vec<JobResult>, String> {
    let root = dir.join("db");
    let mut out = Vec::new();
    for (li, life) in lives.iter().enumerate() {
        let job = Job { root: root.to_string_lossy().into_owned(), cfg: cfg.clone(), entropy: entropy + li as u64 * 1000, clock_ms: BASE_CLOCK_MS + li as i64 * 1000, clock_step_ms, ops: life.ops.clone(), ..Default::default() };
        out.push(run_child(&job, &dir.join(format!("job{li}.json")))?);
    }
    Ok(out)
}

/// Runs consecutive lifetimes (each a fresh process) on one root.
pub fn run_lifetimes(
    dir: &Path,
    cfg: &SysConfig,
    entropy: u64,
    lives: &[LifeSpec],
    fs_log: bool,
) -> Result<Vec<JobResult>, String> {
    let root = dir.join("db");
    let mut clock = BASE_CLOCK_MS;
    let mut out = Vec::new();
    for (li, life) in lives.iter().enumerate() {
        let job = Job {
            root: root.to_string_lossy().into_owned(),
            cfg: cfg.clone(),
            entropy: entropy + li as u64 * 1000,
            clock_ms: clock,
            clock_step_ms: 1000,
            snap: life.snap,
            snap_dir: dir.join(format!("snap{li}")).to_string_lossy().into_owned(),
            snap_from_op: 0,
            fsmon: life.fsmon,
            ops: life.ops.clone(),
            fs_log,
        };
        clock += 1000 * (life.ops.len() as i64 + 5);
        let r = run_child(&job, &dir.join(format!("job{li}.json")))?;
        // a lifetime that ends in a kill point leaves behind the tree as it was at that point
        if matches!(life.ops.last(), Some(Op::KillPoint)) {
            let kp = dir.join(format!("snap{li}")).join("killpoint");
            if kp.is_dir() {
                std::fs::remove_dir_all(&root).map_err(|e| format!("killpoint restore: {e}"))?;
                std::fs::rename(&kp, &root).map_err(|e| format!("killpoint restore: {e}"))?;
            } else {
                return Err(format!("kill point of lifetime {li} left no tree"));
            }
        }
        out.push(r);
    }
    Ok(out)
}

pub fn sample_json<T: Serialize>(items: &[T], n: usize) -> Vec<Value> {
    let step = (items.len() / n.max(1)).max(1);
    items.iter().step_by(step).take(n).map(|x| json!(x)).collect()
}
