//! C18 — event ids are unique and increase in append order within a shard.
//! (A) explicit-state BFS over the real `EventIdGenerator` under an injected
//!     clock; (B) end-to-end: ids seen in every tier / lifetime of exhaustive
//!     short histories under three clock scripts.
use crate::c01::{leaves, plan, Tok, CTXS, TYPES};
use crate::interpose;
use crate::job::SnapMode;
use crate::lab::*;
use crate::sys::SysConfig;
use serde_json::json;
use snel_db::engine::core::EventIdGenerator;
use std::collections::{BTreeMap, BTreeSet, HashSet, VecDeque};

const T0: i64 = 1_700_000_000_000;

#[derive(Debug, Clone, Copy, PartialEq, Eq, Hash, PartialOrd, Ord)]
enum Act {
    Next(i64),
    Burst,
    Restart,
}

/// shard id used for the generator exploration: its low bits are zero, so that anything spilling
/// out of the 12-bit sequence field shows in the tag
const SHARD: u16 = 8;

fn decode(id: u64) -> (u64, u64, u64) {
    (id >> 22, (id >> 12) & 0x3ff, id & 0xfff)
}

/// Run a path on a fresh generator; returns (ids issued in order, generator debug, final clock).
fn run_path(path: &[Act], shard: u16) -> (Vec<u64>, String, i64, Vec<usize>) {
    let mut clock = T0;
    interpose::set_clock_ms(clock);
    interpose::set_yield_tick_ms(1);
    let mut g = EventIdGenerator::new();
    let mut ids = Vec::new();
    let mut epochs = Vec::new();
    let mut epoch = 0usize;
    for a in path {
        match a {
            Act::Next(d) => {
                clock += d;
                interpose::set_clock_ms(clock);
                ids.push(g.next(shard).raw());
                epochs.push(epoch);
                clock = interpose::clock_ms();
            }
            Act::Burst => {
                for _ in 0..4097 {
                    ids.push(g.next(shard).raw());
                    epochs.push(epoch);
                }
                clock = interpose::clock_ms();
            }
            Act::Restart => {
                g = EventIdGenerator::new();
                epoch += 1;
            }
        }
    }
    interpose::set_yield_tick_ms(0);
    (ids, format!("{g:?}"), clock, epochs)
}


/// (C) every shard id of the 10-bit field, through the real ShardContext::next_event_id (own process: needs a configuration).
/// Prints one line per issue; exit code 0 always unless the machinery fails.
pub fn child(root: &str, tier: &str) -> i32 {
    use snel_db::engine::shard::context::ShardContext;
    let root = std::path::PathBuf::from(root);
    let cfg = crate::sys::SysConfig::default();
    let cfg_path = cfg.write(&root);
    unsafe { std::env::set_var("SNELDB_CONFIG", &cfg_path) };
    let shard_ids: Vec<usize> = if tier == "quick" {
        vec![0, 1, 2, 3, 127, 128, 254, 255, 256, 257, 258, 511, 512, 513, 767, 768, 1022, 1023]
    } else {
        (0..1024).collect()
    };
    let rt = tokio::runtime::Builder::new_multi_thread().worker_threads(2).enable_all().build().expect("runtime");
    let _guard = rt.enter();
    crate::interpose::set_clock_ms(T0);
    crate::interpose::set_yield_tick_ms(1);
    let mut seen: std::collections::HashMap<u64, usize> = std::collections::HashMap::new();
    let mut calls = 0u64;
    for sid in &shard_ids {
        let base = root.join(format!("data/shard-{sid}"));
        let wal = root.join(format!("wal/shard-{sid}"));
        std::fs::create_dir_all(&base).unwrap();
        std::fs::create_dir_all(&wal).unwrap();
        // all contexts see the same millisecond
        crate::interpose::set_clock_ms(T0);
        let mut ctx = ShardContext::new(*sid, base, wal);
        let mut last = 0u64;
        for i in 0..3 {
            let id = ctx.next_event_id().raw();
            calls += 1;
            let (_, tag, _) = decode(id);
            if tag as usize != *sid {
                println!("ISSUE shard {sid}: id {id} carries shard tag {tag}");
            }
            if i > 0 && id <= last {
                println!("ISSUE shard {sid}: id {id} not greater than its predecessor {last}");
            }
            last = id;
            if let Some(other) = seen.insert(id, *sid) {
                println!("ISSUE shard {sid}: id {id} was already issued by shard {other} in the same millisecond");
            }
        }
        drop(ctx);
    }
    crate::interpose::set_yield_tick_ms(0);
    println!("COVERED shards={} calls={}", shard_ids.len(), calls);
    0
}

/// first index at which the id sequence stops being strictly increasing
fn first_bad(ids: &[u64]) -> Option<usize> {
    (1..ids.len()).find(|i| ids[*i] <= ids[*i - 1])
}

pub fn check(tier: &str) -> i32 {
    let t0 = std::time::Instant::now();
    let kf = crate::known::load();
    let depth = if tier == "quick" { 6 } else { 9 };
    let deltas = [-5i64, -1, 0, 1, 2];
    let mut acts: Vec<Act> = deltas.iter().map(|d| Act::Next(*d)).collect();
    acts.push(Act::Burst);
    acts.push(Act::Restart);

    // ---- (A) BFS, state = canonical (generator state relative to the clock, last id relative to the clock)
    let mut seen: HashSet<String> = HashSet::new();
    let mut frontier: VecDeque<Vec<Act>> = VecDeque::new();
    frontier.push_back(vec![]);
    let mut transitions = 0u64;
    let mut violations: Vec<(Vec<Act>, String)> = Vec::new();
    let mut known_hits = 0u64;
    let mut known_example: Option<Vec<Act>> = None;
    let mut max_depth = 0;
    let mut samples: Vec<serde_json::Value> = Vec::new();
    while let Some(path) = frontier.pop_front() {
        if path.len() >= depth {
            continue;
        }
        for a in &acts {
            // at most two bursts per path (each is 4097 calls)
            if *a == Act::Burst && path.iter().filter(|x| **x == Act::Burst).count() >= 2 {
                continue;
            }
            let mut p2 = path.clone();
            p2.push(*a);
            transitions += 1;
            let (ids, gdbg, clock, epochs) = run_path(&p2, SHARD);
            // shard bits of every id
            if let Some(bad) = ids.iter().find(|i| decode(**i).1 != SHARD as u64) {
                violations.push((p2.clone(), format!("id {bad} does not carry shard {SHARD}")));
                continue;
            }
            if let Some(i) = first_bad(&ids) {
                // ids repeated / going backwards: listed only when a restart with a
                // non-advanced clock separates the two ids
                let restart_between = epochs[i] != epochs[i - 1];
                if restart_between && kf.is_known("C18", "KF-restart-not-seeded") {
                    known_hits += 1;
                    if known_example.is_none() {
                        known_example = Some(p2.clone());
                    }
                } else {
                    violations.push((p2.clone(), format!("id #{i} = {} not greater than its predecessor {}", ids[i], ids[i - 1])));
                }
                // do not extend paths that already failed
                continue;
            }
            let last = ids.last().copied().unwrap_or(0);
            let (ts, _, seq) = decode(last);
            let rel_last = ts as i64 + 1_609_459_200_000 - clock;
            let gen_rel: String = {
                // generator debug is "EventIdGenerator { last_millis: X, sequence: Y }"
                let lm: i64 = gdbg.split("last_millis: ").nth(1).and_then(|s| s.split(',').next()).and_then(|s| s.trim().parse().ok()).unwrap_or(-1);
                let sq = gdbg.split("sequence: ").nth(1).and_then(|s| s.split(' ').next()).unwrap_or("?").to_string();
                format!("{}:{}", if lm == 0 { "fresh".to_string() } else { (lm - clock).to_string() }, sq)
            };
            let key = format!("{gen_rel}|{}:{}|{}", if ids.is_empty() { "none".to_string() } else { rel_last.to_string() }, seq, ids.is_empty());
            max_depth = max_depth.max(p2.len());
            if seen.insert(key.clone()) {
                if samples.len() < 5 {
                    samples.push(json!({"path": format!("{p2:?}"), "canonical_state": key, "ids_issued": ids.len()}));
                }
                frontier.push_back(p2);
            }
        }
    }

    // ---- (B) end to end
    let cfg = SysConfig::default();
    let scratch = Scratch::new("c18");
    let hs: Vec<Vec<Tok>> = {
        use Tok::*;
        let mut v = leaves(&[Sa, Sb, Fill, Flush, Compact, Restart], if tier == "quick" { 3 } else { 4 });
        v.push(vec![Fill, Fill, Compact, Restart, Fill, Restart, Sa]);
        v
    };
    // clock scripts: ms added before every op
    // 1024 / 3072: ids of consecutive events then agree in every bit below the 32nd
    let scripts: [(&str, i64); 5] = [("same-ms", 0), ("forward", 1000), ("backward", -7), ("forward-1024", 1024), ("forward-3072", 3072)];
    let work: Vec<(Vec<Tok>, (&str, i64))> = hs.iter().flat_map(|h| scripts.iter().map(move |s| (h.clone(), *s))).collect();
    let e2e: Vec<Result<(usize, Vec<String>, Vec<String>), String>> = par_map(&work, threads(), |i, (h, (sname, step))| {
        let p = plan(h, &cfg, SnapMode::Off, true);
        let dir = scratch.dir.join(format!("h{i}"));
        let root = dir.join("db");
        let mut clock = T0;
        let mut out_viol = Vec::new();
        let mut out_known = Vec::new();
        let mut first_id: BTreeMap<i64, u64> = BTreeMap::new();
        let mut obs = 0;
        for (li, life) in p.lives.iter().enumerate() {
            let job = crate::job::Job {
                root: root.to_string_lossy().into_owned(),
                cfg: cfg.clone(),
                entropy: 11 + li as u64,
                clock_ms: clock,
                clock_step_ms: *step,
                ops: life.ops.clone(),
                ..Default::default()
            };
            clock += *step * (life.ops.len() as i64 + 1);
            let r = crate::explore::run_child(&job, &dir.join(format!("job{li}.json")))?;
            if let Some(e) = r.error {
                return Err(e);
            }
            for (opi, _) in &p.observes[li] {
                let st = &r.steps[*opi];
                obs += 1;
                // replies: QUERY a, COUNT a, QUERY b, COUNT b, REPLAY.., we read the two selections
                let mut ids_now: BTreeMap<i64, u64> = BTreeMap::new();
                for (ti, _t) in TYPES.iter().enumerate() {
                    let rep = &st.replies[ti * 2];
                    for row in &rep.rows {
                        let k = row.get("k").and_then(|v| v.as_i64());
                        let id = row.get("event_id").and_then(|v| v.as_u64());
                        match (k, id) {
                            (Some(k), Some(id)) => {
                                if id == 0 {
                                    out_viol.push(format!("{sname} {h:?}: event k={k} has id 0"));
                                }
                                if let Some(prev) = ids_now.insert(k, id) {
                                    if prev != id {
                                        out_viol.push(format!("{sname} {h:?}: k={k} visible under two ids {prev} and {id}"));
                                    }
                                }
                            }
                            _ => {}
                        }
                    }
                }
                // no distinct event is dropped (e.g. taken for a duplicate of another one)
                if let Some((_, acked)) = p.observes[li].iter().find(|(o, _)| o == opi) {
                    for e in acked {
                        if !ids_now.contains_key(&e.k) {
                            // listed: with a clock that does not advance, the unseeded generator of the new
                            // lifetime re-issues ids of the previous one; the selection then merges the two events
                            if *step <= 0 && li > 0 && kf.is_known("C18", "KF-restart-not-seeded") {
                                out_known.push(format!("{sname} {h:?}: k={} merged with an event of another lifetime that carries the same id", e.k));
                                continue;
                            }
                            out_viol.push(format!("{sname} {h:?}: applied event k={} is missing from the selection (life {li} op {opi}): dropped or merged with another event", e.k));
                        }
                    }
                }
                // stability across tiers and lifetimes
                for (k, id) in &ids_now {
                    match first_id.get(k) {
                        None => {
                            first_id.insert(*k, *id);
                        }
                        Some(f) if f != id => out_viol.push(format!("{sname} {h:?}: k={k} had id {f}, later read with id {id} (life {li} op {opi})")),
                        _ => {}
                    }
                }
                // uniqueness and append order (one shard: k order == append order)
                let mut by_k: Vec<(i64, u64)> = ids_now.iter().map(|(k, v)| (*k, *v)).collect();
                by_k.sort();
                for w in by_k.windows(2) {
                    if w[1].1 <= w[0].1 {
                        let msg = format!("{sname} {h:?}: k={} id {} is not greater than k={} id {} (life {li})", w[1].0, w[1].1, w[0].0, w[0].1);
                        // listed only: first event of a lifetime vs last of the previous one, with a clock that did not advance
                        let life_of = |k: i64| p.inflight.iter().position(|l| l.iter().flatten().any(|e| e.k == k));
                        let crosses_restart = *step <= 0 && life_of(w[0].0) != life_of(w[1].0);
                        if crosses_restart && kf.is_known("C18", "KF-restart-not-seeded") {
                            out_known.push(msg);
                        } else {
                            out_viol.push(msg);
                        }
                    }
                }
            }
        }
        let _ = std::fs::remove_dir_all(&dir);
        let _ = CTXS;
        Ok((obs, out_viol, out_known))
    });
    let mut e2e_obs = 0;
    let mut e2e_known = 0;
    for r in &e2e {
        match r {
            Ok((o, v, k)) => {
                e2e_obs += o;
                e2e_known += k.len();
                for m in v {
                    violations.push((vec![], m.clone()));
                }
                if known_example.is_none() && !k.is_empty() {
                    known_example = Some(vec![]);
                }
            }
            Err(e) => {
                eprintln!("MACHINERY: {e}");
                return 2;
            }
        }
    }
    if known_hits + e2e_known as u64 > 0 {
        println!(
            "KNOWN-FINDING: property=C18 KF-restart-not-seeded: {} [{} generator paths, {} end-to-end observations; e.g. {:?}]",
            kf.describe("C18", "KF-restart-not-seeded"),
            known_hits,
            e2e_known,
            known_example
        );
    }
    // ---- (C) all shard ids through the real ShardContext (child process with its own configuration)
    let mut shard_cov = String::new();
    {
        let scratch = crate::lab::Scratch::new("c18shards");
        let exe = std::env::current_exe().expect("exe");
        let out = std::process::Command::new(exe).arg("c18child").arg(scratch.dir.join("db")).arg(tier).env_remove("SNELDB_CONFIG").output();
        match out {
            Ok(o) if o.status.success() => {
                let text = String::from_utf8_lossy(&o.stdout).into_owned();
                for l in text.lines() {
                    if let Some(m) = l.strip_prefix("ISSUE ") {
                        violations.push((vec![], format!("shard sweep: {m}")));
                    } else if let Some(c) = l.strip_prefix("COVERED ") {
                        shard_cov = c.to_string();
                    }
                }
                if shard_cov.is_empty() {
                    eprintln!("MACHINERY: shard sweep child printed no coverage line");
                    return 2;
                }
            }
            Ok(o) => {
                eprintln!("MACHINERY: shard sweep child failed: {}", String::from_utf8_lossy(&o.stderr).chars().take(400).collect::<String>());
                return 2;
            }
            Err(e) => {
                eprintln!("MACHINERY: {e}");
                return 2;
            }
        }
    }
    let mut shown = BTreeSet::new();
    for (p, m) in violations.iter() {
        let key: String = m.chars().filter(|c| !c.is_ascii_digit()).collect();
        if !shown.insert(key) || shown.len() > 5 {
            continue;
        }
        let path = write_replay("C18", &json!({"property": "C18", "generator_path": format!("{p:?}"), "what": m}));
        println!("VIOLATION property=C18 replay={path}");
        eprintln!("  {m}");
    }
    write_evidence(&Evidence {
        property_id: "C18".into(),
        tier: tier.into(),
        seed: seed(),
        level: "model_checking".into(),
        coverage: json!({
            "states": seen.len(),
            "transitions": transitions,
            "traces_validated_against_impl": transitions,
            "samples": samples,
            "max_depth": max_depth,
            "depth_bound": depth,
            "exhaustive": true,
            "explanation": "explicit-state BFS over the real EventIdGenerator::next with an injected wall clock: actions next@delta for delta in {-5,-1,0,+1,+2} ms, burst of 4097 calls in one millisecond (the spin in wait_next_millis is made visible: each sched_yield advances the injected clock by 1 ms), restart (fresh generator, history of issued ids kept by the oracle); state = generator fields and last id relative to the clock; every transition is an execution of the real code",
            "shard_sweep": format!("real ShardContext::next_event_id for shard ids of the 10-bit field, three calls each inside one frozen millisecond: tag equals shard id, ids pairwise distinct across shards ({shard_cov})"),
            "end_to_end_histories": work.len(),
            "end_to_end_observations": e2e_obs,
            "clock_scripts": scripts.iter().map(|s| s.0).collect::<Vec<_>>(),
            "known_finding_paths": known_hits,
        }),
        assumptions: vec![
            "the id generator reads time only through SystemTime::now (interposed clock_gettime)".into(),
            "end-to-end part: one shard, so key order equals append order".into(),
        ],
        wall_s: t0.elapsed().as_secs_f64(),
        violations: violations.len() as i64,
    });
    if violations.is_empty() { 0 } else { 1 }
}
