//! Model of the WAL-id / segment-id protocol *as implemented* (including its
//! known defects). It predicts, for a history and a crash position, how often
//! each acknowledged event is visible after restart. The check uses it only to
//! tell a *listed* defect (observed == predicted wrong answer) from a new
//! violation (observed != spec and != prediction); the verdict itself is
//! always spec-vs-observed.
use crate::lab::Ev;
use std::collections::{BTreeMap, BTreeSet};

#[derive(Debug, Clone, Default)]
pub struct ShardModel {
    pub mem: Vec<Ev>,
    pub wal_cur: u64,
    pub wal_cnt: usize,
    pub wal: BTreeMap<u64, Vec<Ev>>,
    pub alloc_l0: u32,
    /// every event that is in some segment directory (multiset)
    pub seg_events: Vec<Ev>,
    /// L0 directory labels present
    pub l0: BTreeSet<u32>,
    /// events written into each L0 segment
    pub l0_content: BTreeMap<u32, Vec<Ev>>,
    /// events that may be readable from a compaction output and from a surviving input at once
    /// (the input holds several event types and a round merged it for some of them only)
    pub partial_dup: BTreeSet<i64>,
}

#[derive(Debug, Clone)]
pub struct FlushWin {
    pub shard: usize,
    pub seg: u32,
    pub events: Vec<Ev>,
    pub empty: bool,
}

#[derive(Debug, Clone)]
pub struct Model {
    pub cap: usize,
    pub shards: Vec<ShardModel>,
    pub route: BTreeMap<String, usize>,
}

impl Model {
    pub fn new(cap: usize, nshards: usize, route: BTreeMap<String, usize>) -> Self {
        let mut m = Model { cap, shards: vec![ShardModel::default(); nshards], route };
        for s in m.shards.iter_mut() {
            s.start_writer(cap);
        }
        m
    }

    fn shard_of(&self, ctx: &str) -> usize {
        *self.route.get(ctx).unwrap_or(&0)
    }

    /// STORE; returns the flush it triggered, if any.
    pub fn store(&mut self, e: &Ev) -> Option<FlushWin> {
        let cap = self.cap;
        let si = self.shard_of(&e.ctx);
        let s = &mut self.shards[si];
        s.wal_append(e, cap);
        s.mem.push(e.clone());
        if s.mem.len() >= cap {
            return Some(s.rotate_and_flush(si));
        }
        None
    }

    /// between the two steps of a flush (segment complete and indexed, WAL not yet pruned)
    pub fn store_mid(&mut self, e: &Ev) -> Option<FlushWin> {
        let cap = self.cap;
        let si = self.shard_of(&e.ctx);
        let s = &mut self.shards[si];
        s.wal_append(e, cap);
        s.mem.push(e.clone());
        if s.mem.len() >= cap {
            return Some(s.rotate_no_prune(si));
        }
        None
    }

    pub fn flush_cmd(&mut self) -> Vec<FlushWin> {
        let mut out = Vec::new();
        for (i, s) in self.shards.iter_mut().enumerate() {
            out.push(s.rotate_and_flush(i));
        }
        out
    }

    /// FLUSH stopped after every shard's segment is complete but before any WAL pruning
    pub fn flush_cmd_mid(&mut self) -> Vec<FlushWin> {
        let mut out = Vec::new();
        for (i, s) in self.shards.iter_mut().enumerate() {
            out.push(s.rotate_no_prune(i));
        }
        out
    }

    /// process start on the current disk state (after clean shutdown or crash)
    pub fn restart(&mut self) {
        let cap = self.cap;
        for s in self.shards.iter_mut() {
            s.mem = s.wal.values().flatten().cloned().collect();
            s.alloc_l0 = s.l0.iter().max().map_or(0, |m| m + 1);
            s.start_writer(cap);
        }
    }

    /// compaction preserves content; only the L0 label set changes (observed)
    pub fn compacted(&mut self, live: &[Vec<String>]) {
        for (i, s) in self.shards.iter_mut().enumerate() {
            if let Some(l) = live.get(i) {
                let before = s.l0.clone();
                s.l0 = l.iter().filter_map(|x| x.parse::<u32>().ok()).filter(|x| *x < 10_000).collect();
                let something_merged = before != s.l0 || l.iter().any(|x| x.parse::<u32>().map_or(false, |n| n >= 10_000));
                // listed defect (C05): an input that holds several event types and survives the round
                // may have been merged for one of them; its rows of that type are then read twice
                let mut dup = BTreeSet::new();
                if something_merged {
                    for label in s.l0.iter().filter(|x| before.contains(x)) {
                        if let Some(evs) = s.l0_content.get(label) {
                            let types: BTreeSet<&str> = evs.iter().map(|e| e.typ.as_str()).collect();
                            if types.len() >= 2 {
                                dup.extend(evs.iter().map(|e| e.k));
                            }
                        }
                    }
                }
                // candidates of earlier rounds stay while their segment is still there
                let still: BTreeSet<i64> = s.l0.iter().filter_map(|x| s.l0_content.get(x)).flatten().map(|e| e.k).collect();
                s.partial_dup = s.partial_dup.iter().copied().filter(|k| still.contains(k)).chain(dup).collect();
                s.l0_content.retain(|k, _| s.l0.contains(k));
            }
        }
    }

    pub fn partial_dup(&self) -> BTreeSet<i64> {
        self.shards.iter().flat_map(|s| s.partial_dup.iter().copied()).collect()
    }

    /// visibility in the running process
    pub fn visible_now(&self, k: i64) -> usize {
        self.shards
            .iter()
            .map(|s| s.mem.iter().filter(|e| e.k == k).count() + s.seg_events.iter().filter(|e| e.k == k).count())
            .sum()
    }

    /// visibility after a restart from the current disk state
    pub fn visible_after_restart(&self, k: i64) -> usize {
        self.shards
            .iter()
            .map(|s| {
                s.wal.values().flatten().filter(|e| e.k == k).count() + s.seg_events.iter().filter(|e| e.k == k).count()
            })
            .sum()
    }
}

impl ShardModel {
    fn start_writer(&mut self, cap: usize) {
        let last = self.wal.keys().max().copied().unwrap_or(0);
        let next = if last == 0 {
            0
        } else if self.wal.get(&last).map_or(0, |f| f.len()) < cap {
            last
        } else {
            last + 1
        };
        self.wal_cur = next;
        self.wal.entry(next).or_default();
        let maxid = self.wal.keys().max().copied().unwrap_or(0);
        self.wal_cnt = self.wal.get(&maxid).map_or(0, |f| f.len());
    }

    fn wal_append(&mut self, e: &Ev, cap: usize) {
        if let Some(f) = self.wal.get_mut(&self.wal_cur) {
            f.push(e.clone());
        }
        // else: the active log was unlinked by an earlier prune; the line goes to an orphaned inode
        self.wal_cnt += 1;
        if self.wal_cnt >= cap {
            self.wal_cur += 1;
            self.wal.entry(self.wal_cur).or_default();
            let maxid = self.wal.keys().max().copied().unwrap_or(0);
            self.wal_cnt = self.wal.get(&maxid).map_or(0, |f| f.len());
        }
    }

    fn rotate_no_prune(&mut self, shard: usize) -> FlushWin {
        let seg = self.alloc_l0;
        self.alloc_l0 += 1;
        let events = std::mem::take(&mut self.mem);
        if events.is_empty() {
            return FlushWin { shard, seg, events, empty: true };
        }
        self.seg_events.extend(events.iter().cloned());
        self.l0.insert(seg);
        self.l0_content.insert(seg, events.clone());
        FlushWin { shard, seg, events, empty: false }
    }

    fn rotate_and_flush(&mut self, shard: usize) -> FlushWin {
        let w = self.rotate_no_prune(shard);
        if !w.empty {
            let seg = w.seg as u64;
            self.wal.retain(|id, _| *id > seg);
        }
        w
    }
}
