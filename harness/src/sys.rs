//! One lifetime of the real database inside this process.
use serde::{Deserialize, Serialize};
use serde_json::Value;
use snel_db::command::dispatcher::dispatch_command;
use snel_db::command::parser::parse_command;
use snel_db::engine::core::compaction::handover::CompactionHandover;
use snel_db::engine::core::compaction::policy::{CompactionPolicy, KWayCountPolicy};
use snel_db::engine::core::{CompactionWorker, SegmentIndex};
use snel_db::engine::schema::SchemaRegistry;
use snel_db::engine::shard::manager::ShardManager;
use snel_db::engine::shard::types::{Shard, ShardSharedState};
use snel_db::shared::response::arrow::ArrowRenderer;
use snel_db::shared::response::json::JsonRenderer;
use snel_db::shared::response::render::Renderer;
use snel_db::shared::response::unix::UnixRenderer;
use std::path::{Path, PathBuf};
use std::sync::Arc;
use std::time::Duration;
use tokio::sync::RwLock;

#[derive(Debug, Clone, Serialize, Deserialize)]
#[serde(default)]
pub struct SysConfig {
    pub shards: usize,
    pub fill_factor: usize,
    pub event_per_zone: usize,
    pub segments_per_merge: usize,
    pub wal_buffered: bool,
    pub wal_flush_each_write: bool,
    pub wal_fsync: bool,
    /// capacity of the WAL writer's user-space buffer in bytes (only used when wal_buffered)
    #[serde(default = "default_wal_buffer_size")]
    pub wal_buffer_size: usize,
    pub conservative: bool,
    pub bypass_auth: bool,
    pub timezone: String,
    pub week_start: String,
    pub streaming_batch_size: Option<usize>,
    pub max_inflight_passives: usize,
    pub session_expiry_s: u64,
    pub admin_user: Option<String>,
    pub admin_key: Option<String>,
}

impl Default for SysConfig {
    fn default() -> Self {
        Self {
            shards: 1,
            fill_factor: 2,
            event_per_zone: 2,
            segments_per_merge: 2,
            wal_buffered: false,
            wal_flush_each_write: true,
            wal_fsync: false,
            wal_buffer_size: 102400,
            conservative: false,
            bypass_auth: true,
            timezone: "UTC".into(),
            week_start: "Mon".into(),
            streaming_batch_size: None,
            max_inflight_passives: 8,
            session_expiry_s: 300,
            admin_user: None,
            admin_key: None,
        }
    }
}

impl SysConfig {
    pub fn capacity(&self) -> usize {
        self.fill_factor * self.event_per_zone
    }

    /// Writes `<root>/config.toml` with every path under `root` and returns its path.
    pub fn write(&self, root: &Path) -> PathBuf {
        let r = root.to_str().unwrap();
        let sbs = match self.streaming_batch_size {
            Some(n) => format!("streaming_batch_size = {n}\n"),
            None => String::new(),
        };
        let admin = match (&self.admin_user, &self.admin_key) {
            (Some(u), Some(k)) => format!("initial_admin_user = \"{u}\"\ninitial_admin_key = \"{k}\"\n"),
            _ => String::new(),
        };
        let text = format!(
            r#"[wal]
enabled = true
fsync = {fsync}
buffered = {buffered}
buffer_size = {wbs}
dir = "{r}/wal/"
flush_each_write = {few}
fsync_every_n = 1024
conservative_mode = {cons}
archive_dir = "{r}/wal/archived/"
compression_level = 3
compression_algorithm = "zstd"

[engine]
fill_factor = {ff}
data_dir = "{r}/cols"
index_dir = "{r}/index/"
shard_count = {shards}
event_per_zone = {epz}
compaction_interval = 100000000
sys_io_threshold = 100
sys_memory_threshold_mb = 1
max_inflight_passives = {mip}
segments_per_merge = {k}
compaction_max_shard_concurrency = 1

[schema]
def_dir = "{r}/schema/"

[server]
socket_path = "{r}/sneldb.sock"
log_level = "error"
output_format = "json"
tcp_addr = "127.0.0.1:0"
http_addr = "127.0.0.1:0"
ws_addr = "127.0.0.1:0"
auth_token = "tok"
backpressure_threshold = 100

[playground]
enabled = false
allow_unauthenticated = false

[auth]
bypass_auth = {bypass}
rate_limit_enabled = false
session_token_expiry_seconds = {exp}
{admin}
[logging]
log_dir = "{r}/logs"
stdout_level = "error"
file_level = "error"

[query]
zone_index_cache_max_entries = 256
column_block_cache_max_bytes = "64MB"
zone_surf_cache_max_bytes = "10MB"
{sbs}
[time]
timezone = "{tz}"
week_start = "{ws}"
use_calendar_bucketing = true
"#,
            fsync = self.wal_fsync,
            wbs = self.wal_buffer_size,
            buffered = self.wal_buffered,
            few = self.wal_flush_each_write,
            cons = self.conservative,
            ff = self.fill_factor,
            shards = self.shards,
            epz = self.event_per_zone,
            mip = self.max_inflight_passives,
            k = self.segments_per_merge,
            bypass = self.bypass_auth,
            exp = self.session_expiry_s,
            tz = self.timezone,
            ws = self.week_start,
        );
        std::fs::create_dir_all(root).unwrap();
        let p = root.join("config.toml");
        std::fs::write(&p, text).unwrap();
        p
    }
}

fn default_wal_buffer_size() -> usize {
    102400
}

#[derive(Debug, Clone, Copy, PartialEq, Eq, Serialize, Deserialize)]
#[serde(rename_all = "lowercase")]
pub enum Fmt {
    Json,
    Arrow,
    Text,
}

pub struct Sys {
    /// present when the job runs with authentication enabled (bypass_auth = false)
    pub auth: Option<Arc<snel_db::engine::auth::AuthManager>>,
    pub cfg: SysConfig,
    pub root: PathBuf,
    pub sm: Arc<ShardManager>,
    pub registry: Arc<RwLock<SchemaRegistry>>,
    pub shared: Vec<ShardSharedState>,
}

pub fn data_dir(root: &Path) -> PathBuf {
    root.join("cols")
}
pub fn wal_dir(root: &Path) -> PathBuf {
    root.join("wal")
}

impl Sys {
    /// `SNELDB_CONFIG` must already point at `cfg.write(root)` (CONFIG is a
    /// process-global Lazy: one configuration per process).
    pub async fn start(cfg: SysConfig, root: &Path) -> Sys {
        assert_eq!(
            snel_db::shared::config::CONFIG.engine.shard_count, cfg.shards,
            "process CONFIG does not match job config"
        );
        let registry = Arc::new(RwLock::new(SchemaRegistry::new().expect("schema registry")));
        let mut shards = Vec::new();
        let mut shared = Vec::new();
        for id in 0..cfg.shards {
            let (shard, st) = Shard::spawn(
                id,
                data_dir(root).join(format!("shard-{id}")),
                wal_dir(root).join(format!("shard-{id}")),
            )
            .await;
            shards.push(shard);
            shared.push(st);
        }
        let sm = Arc::new(ShardManager { shards });
        // what FrontendContext::from_config does for the auth manager
        let auth = if cfg.bypass_auth {
            None
        } else {
            let am = Arc::new(snel_db::engine::auth::AuthManager::new(Arc::clone(&sm)));
            let _ = am.load_from_db().await;
            let _ = am.bootstrap_admin_user().await;
            let _ = am.load_from_db().await;
            Some(am)
        };
        let sys = Sys { auth, cfg, root: root.to_path_buf(), sm, registry, shared };
        sys.barrier().await;
        sys
    }

    /// Quiescence barrier: with the paused clock, a timer only fires once every
    /// other task is blocked.
    pub async fn barrier(&self) {
        tokio::time::sleep(Duration::from_millis(5)).await;
    }

    pub async fn exec_raw(&self, line: &str, fmt: Fmt) -> Result<Vec<u8>, String> {
        self.exec_as(line, fmt, None, None).await
    }

    pub async fn exec_as(
        &self,
        line: &str,
        fmt: Fmt,
        auth: Option<&Arc<snel_db::engine::auth::AuthManager>>,
        user: Option<&str>,
    ) -> Result<Vec<u8>, String> {
        let cmd = parse_command(line).map_err(|e| format!("parse: {e:?}"))?;
        let mut out: Vec<u8> = Vec::new();
        let renderer: Box<dyn Renderer> = match fmt {
            Fmt::Json => Box::new(JsonRenderer),
            Fmt::Arrow => Box::new(ArrowRenderer),
            Fmt::Text => Box::new(UnixRenderer),
        };
        dispatch_command(&cmd, &mut out, &self.sm, &self.registry, auth, user, renderer.as_ref())
            .await
            .map_err(|e| format!("io: {e}"))?;
        Ok(out)
    }

    /// Execute a command and decode the JSON reply.
    pub async fn exec(&self, line: &str) -> crate::decode::Reply {
        match self.exec_raw(line, Fmt::Json).await {
            Ok(bytes) => crate::decode::decode_json(&bytes),
            // what every frontend answers when the command does not parse
            Err(e) if e.starts_with("parse:") => crate::decode::Reply { status: 400, message: format!("PARSE ERROR {e}"), ..Default::default() },
            Err(e) => crate::decode::Reply::failed(e),
        }
    }

    /// One input line as the TCP listener handles it: authentication gate, parse, dispatch.
    pub async fn serve_line(&self, line: &str, gate: &mut snel_db::frontend::tcp::listener::verif_api::GateState) -> (crate::decode::Reply, Option<String>, Option<String>) {
        use snel_db::frontend::tcp::listener::verif_api;
        match verif_api::gate(line, gate).await {
            None => (crate::decode::Reply { status: 401, message: "ERROR: Authentication failed".into(), ..Default::default() }, None, None),
            Some((cmd, user, Some(token))) if cmd == "OK" => (crate::decode::Reply { status: 200, message: "OK TOKEN".into(), ..Default::default() }, user, Some(token)),
            Some((cmd, user, _)) => {
                let reply = match self.exec_as(&cmd, Fmt::Json, self.auth.as_ref(), user.as_deref()).await {
                    Ok(bytes) => crate::decode::decode_json(&bytes),
                    Err(e) if e.starts_with("parse:") => crate::decode::Reply { status: 400, message: format!("PARSE ERROR {e}"), ..Default::default() },
                    Err(e) => crate::decode::Reply::failed(e),
                };
                (reply, user, None)
            }
        }
    }

    /// One compaction round on one shard: the body of the background loop
    /// without its sleep and pressure probes, on the shard's own live list and
    /// flush lock. Returns whether the policy produced any plan.
    pub async fn compact(&self, shard: usize) -> Result<bool, String> {
        let dir = data_dir(&self.root).join(format!("shard-{shard}"));
        let index = SegmentIndex::load(&dir).await.map_err(|e| e.to_string())?;
        let plans = CompactionPolicy::plan(&KWayCountPolicy::default(), &index);
        if plans.is_empty() {
            return Ok(false);
        }
        let registry = Arc::new(RwLock::new(SchemaRegistry::new().map_err(|e| format!("{e:?}"))?));
        let handover = Arc::new(CompactionHandover::new(
            shard as u32,
            dir.clone(),
            Arc::clone(&self.shared[shard].segment_ids),
            Arc::clone(&self.shared[shard].flush_lock),
        ));
        let worker = CompactionWorker::new(shard as u32, dir, registry, handover);
        // as in the engine (compactor/background.rs) the round runs inside a spawned task: a panic in
        // it ends that task, not the process; it is reported as a failed round
        let res = tokio::spawn(async move { worker.run().await.map_err(|e| e.to_string()) }).await;
        self.barrier().await;
        match res {
            Ok(r) => r?,
            Err(e) if e.is_panic() => {
                let p = e.into_panic();
                let m = p.downcast_ref::<String>().cloned().or_else(|| p.downcast_ref::<&str>().map(|s| s.to_string())).unwrap_or_else(|| "panic".into());
                return Err(format!("compaction round panicked: {m}"));
            }
            Err(_) => return Err("compaction round cancelled".into()),
        }
        Ok(true)
    }

    /// One compaction round on every shard.
    pub async fn compact_all(&self) -> Result<usize, String> {
        // one round per shard: with k=2 the policy force-merges a single
        // leftover segment one level up in every round, so "until no plan"
        // does not terminate by design of the policy
        let mut rounds = 0;
        for s in 0..self.cfg.shards {
            if self.compact(s).await? {
                rounds += 1;
            }
        }
        Ok(rounds)
    }

    /// FLUSH one shard after the other (the FLUSH command and `flush_all` start all
    /// shards at once; with the blocking pool in play the interleaving of several
    /// concurrently flushing shards is timing dependent, which product-mode checks
    /// with committed expected digests cannot tolerate).
    pub async fn flush_sequential(&self) -> Vec<(usize, String)> {
        use snel_db::engine::shard::message::ShardMessage;
        let mut errs = Vec::new();
        for shard in &self.sm.shards {
            let (tx, rx) = tokio::sync::oneshot::channel();
            if let Err(e) = shard.tx.send(ShardMessage::Flush { registry: Arc::clone(&self.registry), completion: tx }).await {
                errs.push((shard.id, e.to_string()));
                continue;
            }
            match rx.await {
                Ok(Ok(())) => {}
                Ok(Err(e)) => errs.push((shard.id, e)),
                Err(_) => errs.push((shard.id, "flush completion dropped".into())),
            }
            self.barrier().await;
        }
        errs
    }

    /// graceful shutdown with the shards flushed one after the other
    pub async fn shutdown_sequential(&self) -> Vec<(usize, String)> {
        let mut errs = self.flush_sequential().await;
        errs.extend(self.sm.shutdown_all().await);
        self.barrier().await;
        errs
    }

    /// What `start_all` does on ctrl-c.
    pub async fn shutdown(&self) -> Vec<(usize, String)> {
        let mut errs = self.sm.flush_all(Arc::clone(&self.registry)).await;
        errs.extend(self.sm.shutdown_all().await);
        self.barrier().await;
        errs
    }

    pub fn live_segments(&self, shard: usize) -> Vec<String> {
        self.shared[shard].segment_ids.read().unwrap().clone()
    }
}

pub fn _unused(_: Value) {}
