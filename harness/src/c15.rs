//! C15 — sequence queries return exactly the linked, correctly ordered pairs.
//! Every assignment of (link value, time) to small sets of a- and b-events x
//! FOLLOWED BY / PRECEDED BY x WHERE placements x LIMIT x layouts; constraint oracle.
use crate::decode::Reply;
use crate::prod::Layout;
use crate::prodcheck::{self, Judged, Spec};
use crate::refq::*;
use crate::sys::SysConfig;
use serde_json::{json, Map, Value};
use std::collections::BTreeSet;

fn schemas() -> Vec<Schema> {
    let f = vec![("id".into(), FType::Int), ("u".into(), FType::OptStr), ("d".into(), FType::Datetime), ("v".into(), FType::Int)];
    vec![Schema { name: "pa".into(), fields: f.clone() }, Schema { name: "pb".into(), fields: f }]
}

const T: [i64; 3] = [1_700_000_010, 1_700_000_020, 1_700_000_030];
const LINKS: [Option<&str>; 3] = [Some("x"), Some("y"), None];

fn mk(ty: usize, id: i64, link: Option<&str>, t: i64) -> (usize, Row) {
    let mut m = Map::new();
    m.insert("id".into(), json!(id));
    if let Some(l) = link {
        m.insert("u".into(), json!(l));
    }
    m.insert("d".into(), json!(t));
    m.insert("v".into(), json!(id));
    (ty, Row { k: id, ctx: format!("c{}", id % 3), payload: m, ts: 0 })
}

pub fn datasets(tier: &str) -> Vec<(String, Vec<(usize, Row)>)> {
    let mut out = Vec::new();
    // shapes (number of a-events, number of b-events)
    let shapes: Vec<(usize, usize)> = if tier == "quick" { vec![(1, 2), (2, 1)] } else { vec![(1, 1), (1, 2), (2, 1), (2, 2), (1, 3)] };
    for (na, nb) in shapes {
        let n = na + nb;
        let total = 9usize.pow(n as u32);
        let stride = if tier == "quick" { 2 } else if n >= 4 { 3 } else { 1 };
        for code in (0..total).step_by(stride) {
            let mut c = code;
            let mut rows = Vec::new();
            // interleave b before a for odd codes so that STORE order differs from time order
            let mut evs = Vec::new();
            for i in 0..n {
                let opt = c % 9;
                c /= 9;
                let ty = if i < na { 0 } else { 1 };
                evs.push((ty, (i + 1) as i64, LINKS[opt / 3], T[opt % 3]));
            }
            if code % 2 == 1 {
                evs.reverse();
            }
            for (ty, id, l, t) in evs {
                rows.push(mk(ty, id, l, t));
            }
            out.push((format!("{na}a{nb}b#{code}"), rows));
        }
    }
    out
}

#[derive(Clone)]
struct SQ {
    text: String,
    followed: bool,
    using_d: bool,
    /// (side, op, value): side 0 = pa, 1 = pb
    wheres: Vec<(usize, &'static str, i64)>,
    limit: Option<usize>,
    /// OFFSET written next to the LIMIT (before or after it); what it skips is not part of the property,
    /// the bound of LIMIT on the number of sequences is
    offset: Option<(usize, bool)>,
}

fn queries() -> Vec<SQ> {
    let mut v = Vec::new();
    for followed in [true, false] {
        let kw = if followed { "FOLLOWED BY" } else { "PRECEDED BY" };
        let where_sets: Vec<Vec<(usize, &'static str, i64)>> = vec![vec![], vec![(0, ">=", 2)], vec![(1, "=", 3)], vec![(1, ">=", 3)], vec![(0, "=", 1), (1, ">=", 3)]];
        for ws in &where_sets {
            for limit in [None, Some(1usize)] {
                let mut t = format!("QUERY pa {kw} pb LINKED BY u USING TIME d");
                if !ws.is_empty() {
                    t.push_str(" WHERE ");
                    t.push_str(&ws.iter().map(|(s, op, val)| format!("{}.v {op} {val}", if *s == 0 { "pa" } else { "pb" })).collect::<Vec<_>>().join(" AND "));
                }
                if let Some(l) = limit {
                    t.push_str(&format!(" LIMIT {l}"));
                }
                v.push(SQ { text: t, followed, using_d: true, wheres: ws.clone(), limit, offset: None });
            }
        }
        // LIMIT together with OFFSET, in both clause orders
        for (off, first) in [(1usize, false), (1, true), (2, false)] {
            let t = if first { format!("QUERY pa {kw} pb LINKED BY u USING TIME d OFFSET {off} LIMIT 1") } else { format!("QUERY pa {kw} pb LINKED BY u USING TIME d LIMIT 1 OFFSET {off}") };
            v.push(SQ { text: t, followed, using_d: true, wheres: vec![], limit: Some(1), offset: Some((off, first)) });
        }
        v.push(SQ { text: format!("QUERY pa {kw} pb LINKED BY u"), followed, using_d: false, wheres: vec![], limit: None, offset: None });
    }
    v
}

fn holds(op: &str, a: i64, b: i64) -> bool {
    match op {
        "=" => a == b,
        ">=" => a >= b,
        _ => false,
    }
}

pub fn check(tier: &str) -> i32 {
    let qs = queries();
    let judge = |rows: &[(usize, Row)], _cfg: &SysConfig, _layout: Layout, qi: usize, reps: &[Reply]| -> Judged {
        let q = &qs[qi];
        let rep = &reps[qi];
        let class0 = format!("{}{}{}{}", if q.followed { "FOLLOWED BY" } else { "PRECEDED BY" }, if q.using_d { " USING TIME d" } else { " (core timestamp)" }, if q.wheres.is_empty() { "" } else { " WHERE" }, if q.limit.is_some() { " LIMIT" } else { "" });
        if rep.failure.is_some() || (rep.status != 200 && !rep.message.to_lowercase().contains("no matching")) {
            return Judged { answer: Some(format!("status {}", rep.status)), verdict: Err(format!("status {} {}", rep.status, rep.message)), class: format!("{class0}: error reply"), nontrivial: true };
        }
        let time_of = |r: &Row| if q.using_d { r.payload.get("d").and_then(|v| v.as_i64()).unwrap_or(0) } else { r.ts };
        let link_of = |r: &Row| r.payload.get("u").and_then(|v| v.as_str()).map(|s| s.to_string());
        let side_ok = |side: usize, r: &Row| q.wheres.iter().filter(|w| w.0 == side).all(|(_, op, val)| holds(op, r.k, *val));
        let a_rows: Vec<&Row> = rows.iter().filter(|(t, _)| *t == 0).map(|(_, r)| r).collect();
        let b_rows: Vec<&Row> = rows.iter().filter(|(t, _)| *t == 1).map(|(_, r)| r).collect();
        let qualifies = |a: &Row, b: &Row| -> bool {
            let (la, lb) = (link_of(a), link_of(b));
            la.is_some() && la == lb && side_ok(0, a) && side_ok(1, b) && if q.followed { time_of(b) >= time_of(a) } else { time_of(b) < time_of(a) }
        };
        let matchable: BTreeSet<i64> = a_rows.iter().filter(|a| b_rows.iter().any(|b| qualifies(a, b))).map(|a| a.k).collect();
        let mut errs = Vec::new();
        if rep.rows.len() % 2 != 0 {
            errs.push(format!("{} rows: not a list of pairs", rep.rows.len()));
        }
        let mut matched: Vec<i64> = Vec::new();
        for pair in rep.rows.chunks(2) {
            if pair.len() < 2 {
                break;
            }
            let ty = |r: &Map<String, Value>| r.get("event_type").and_then(|v| v.as_str()).unwrap_or("").to_string();
            let id = |r: &Map<String, Value>| r.get("id").and_then(|v| v.as_i64()).or_else(|| r.get("id").and_then(|v| v.as_str()).and_then(|s| s.parse().ok())).unwrap_or(-1);
            let (ra, rb) = if ty(&pair[0]) == "pa" { (&pair[0], &pair[1]) } else { (&pair[1], &pair[0]) };
            if ty(ra) != "pa" || ty(rb) != "pb" {
                errs.push(format!("pair of types ({}, {})", ty(&pair[0]), ty(&pair[1])));
                continue;
            }
            let (ia, ib) = (id(ra), id(rb));
            let (Some(a), Some(b)) = (a_rows.iter().find(|r| r.k == ia), b_rows.iter().find(|r| r.k == ib)) else {
                errs.push(format!("pair (a{ia}, b{ib}) names an event that was not stored"));
                continue;
            };
            if !qualifies(a, b) {
                let why = if link_of(a).is_none() && link_of(b).is_none() {
                    "not linked (both events lack the link field)"
                } else if link_of(a) != link_of(b) {
                    "not linked"
                } else if !side_ok(0, a) || !side_ok(1, b) {
                    "a side fails its WHERE"
                } else {
                    "wrong order in time"
                };
                errs.push(format!("pair (a{ia}, b{ib}) returned but {why}"));
            }
            matched.push(ia);
        }
        let mset: BTreeSet<i64> = matched.iter().copied().collect();
        match q.limit {
            None => {
                if mset != matchable {
                    errs.push(format!("matched a-events {mset:?}, a-events with a qualifying partner {matchable:?}"));
                }
            }
            Some(l) => {
                let pairs = rep.rows.len() / 2;
                if pairs > l {
                    errs.push(format!("{pairs} sequences returned with LIMIT {l}"));
                }
                if !mset.is_subset(&matchable) {
                    errs.push(format!("matched {mset:?} is not a subset of the matchable {matchable:?}"));
                }
                if q.offset.is_none() && pairs < l.min(matchable.len()) {
                    errs.push(format!("{pairs} sequences returned, {} matchable, LIMIT {l}", matchable.len()));
                }
            }
        }
        let kind = match errs.first() {
            None => "",
            Some(e) if e.contains("both events lack") => ": events without the link field are paired with each other",
            Some(e) if e.contains("not linked") => ": unlinked pair",
            Some(e) if e.contains("wrong order") => ": wrong time order",
            Some(e) if e.contains("fails its WHERE") => ": WHERE not applied to a side",
            Some(e) if e.contains("matched a-events") => ": matched set differs",
            Some(_) => ": other",
        };
        Judged {
            answer: if q.limit.is_none() { Some(format!("{mset:?}")) } else { Some(format!("{} pairs", rep.rows.len() / 2)) },
            verdict: if errs.is_empty() { Ok(()) } else { Err(errs.join("; ")) },
            class: format!("{class0}{kind}"),
            nontrivial: !matchable.is_empty(),
        }
    };
    let cfgs = if tier == "quick" {
        vec![SysConfig { fill_factor: 8, event_per_zone: 2, ..Default::default() }, SysConfig { fill_factor: 8, event_per_zone: 1, shards: 3, ..Default::default() }]
    } else {
        vec![SysConfig { fill_factor: 8, event_per_zone: 2, ..Default::default() }, SysConfig { fill_factor: 8, event_per_zone: 1, shards: 3, ..Default::default() }]
    };
    let spec = Spec {
        prop: "C15",
        tier,
        level: "exploration",
        schemas: schemas(),
        datasets: datasets(tier),
        cfgs,
        layouts: if tier == "quick" { vec![Layout::Mem, Layout::FlushEnd] } else { vec![Layout::Mem, Layout::FlushEnd, Layout::Mixed, Layout::Compact1] },
        queries: qs.iter().map(|q| q.text.clone()).collect(),
        judge: &judge,
        rule: "every assignment of (link value in {x, y, absent}, time in {t0, t1, t2}) to the events of small a/b sets (1a2b, 2a1b; thorough adds 1a1b, 2a2b, 1a3b), half of them stored in reverse order; queries: FOLLOWED BY and PRECEDED BY x USING TIME d x WHERE in {none, on the a side, on the b side (so that the nearest partner can fail it), on both} x LIMIT {none, 1}, LIMIT 1 with OFFSET 1 / 2 in both clause orders (only the bound of LIMIT is judged), plus the core-timestamp form; layouts memory / flushed (/ mixed / compacted) x 1 and 3 shards; oracle: every returned pair is linked, ordered as required (>= resp. strictly earlier) and satisfies both WHEREs, the matched a-set equals the a-events that have a qualifying partner, LIMIT bounds the number of pairs; distinct_nontrivial = cases with at least one matchable a-event".into(),
        assumptions: vec!["which qualifying b-event a pair carries is not prescribed".into()],
        describe: &|_| "a sequence query does not return exactly the linked, ordered, WHERE-satisfying pairs (exact cases in known/C15.*.json)".to_string(),
        extra: json!({}),
    };
    prodcheck::run(&spec)
}
