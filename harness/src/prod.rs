//! Product mode: data x storage layout x query. A data set is stored through a
//! layout script on the real engine; a whole query list is then run against it.
use crate::decode::Reply;
use crate::job::{Op as JOp, SnapMode};
use crate::lab::*;
use crate::refq::{Row, Schema};
use crate::sys::SysConfig;
use serde::{Deserialize, Serialize};

#[derive(Debug, Clone, Copy, PartialEq, Eq, Serialize, Deserialize, PartialOrd, Ord, Hash)]
pub enum Layout {
    /// everything in the active memtable
    Mem,
    /// one FLUSH at the end: one L0 segment per shard
    FlushEnd,
    /// FLUSH after every row: one L0 segment per row
    FlushEach,
    /// FLUSH after every second row
    FlushEvery2,
    /// FLUSH after every row, then one compaction round (L1)
    Compact1,
    /// FLUSH after every row, then two compaction rounds (L2 for k=2)
    Compact2,
    /// first half flushed, second half in memory
    Mixed,
    /// first half flushed and compacted, then the rest flushed, last row in memory
    MixedDeep,
    /// process killed at a quiescent point and restarted: rows come back from the WAL
    RestartWal,
    /// clean shutdown and restart: rows come back from segments
    RestartSeg,
    /// first half flushed row by row and compacted twice (L1 emptied into L2), the rest flushed row
    /// by row and compacted once more: a level-1 label is handed out a second time in one process
    LabelReuse,
}

pub const ALL_LAYOUTS: [Layout; 10] = [
    Layout::Mem,
    Layout::FlushEnd,
    Layout::FlushEach,
    Layout::FlushEvery2,
    Layout::Compact1,
    Layout::Compact2,
    Layout::Mixed,
    Layout::MixedDeep,
    Layout::RestartWal,
    Layout::RestartSeg,
];

#[derive(Debug, Clone, Serialize, Deserialize)]
pub struct Scenario {
    pub schemas: Vec<Schema>,
    /// (index into schemas, row) in STORE order
    pub rows: Vec<(usize, Row)>,
    pub layout: Layout,
    pub cfg: SysConfig,
    pub queries: Vec<String>,
    pub entropy: u64,
}

pub struct Outcome {
    /// rows with their logical STORE second filled in
    pub rows: Vec<(usize, Row)>,
    pub replies: Vec<Reply>,
    pub live: Vec<Vec<String>>,
}

fn flush() -> JOp {
    JOp::FlushSeq
}

/// Builds the lifetimes; returns (lifetimes, for each row: (life, op index))
pub fn build(sc: &Scenario) -> (Vec<LifeSpec>, Vec<(usize, usize)>) {
    let mut lives: Vec<Vec<JOp>> = vec![vec![]];
    let mut pos = Vec::new();
    for s in &sc.schemas {
        lives[0].push(JOp::Cmd { text: s.define_cmd() });
    }
    let n = sc.rows.len();
    for (i, (si, r)) in sc.rows.iter().enumerate() {
        let li = lives.len() - 1;
        pos.push((li, lives[li].len()));
        lives[li].push(JOp::Cmd { text: r.store_cmd(&sc.schemas[*si].name) });
        let last = i + 1 == n;
        match sc.layout {
            Layout::Mem | Layout::RestartWal | Layout::RestartSeg => {}
            Layout::FlushEnd => {
                if last {
                    lives[li].push(flush());
                }
            }
            Layout::FlushEach | Layout::Compact1 | Layout::Compact2 => lives[li].push(flush()),
            Layout::LabelReuse => {
                lives[li].push(flush());
                if i + 1 == (n + 1) / 2 {
                    lives[li].push(JOp::CompactAll);
                    lives[li].push(JOp::CompactAll);
                }
            }
            Layout::FlushEvery2 => {
                if i % 2 == 1 || last {
                    lives[li].push(flush());
                }
            }
            Layout::Mixed => {
                if i + 1 == (n + 1) / 2 {
                    lives[li].push(flush());
                }
            }
            Layout::MixedDeep => {
                let half = (n + 1) / 2;
                if i + 1 < half {
                    lives[li].push(flush());
                } else if i + 1 == half {
                    lives[li].push(flush());
                    lives[li].push(JOp::CompactAll);
                } else if !last {
                    lives[li].push(flush());
                }
            }
        }
    }
    match sc.layout {
        Layout::Compact1 | Layout::LabelReuse => lives[0].push(JOp::CompactAll),
        Layout::Compact2 => {
            lives[0].push(JOp::CompactAll);
            lives[0].push(JOp::CompactAll);
        }
        Layout::RestartWal => lives.push(vec![]),
        Layout::RestartSeg => {
            lives[0].push(JOp::ShutdownSeq);
            lives.push(vec![]);
        }
        _ => {}
    }
    let li = lives.len() - 1;
    lives[li].push(JOp::Observe { queries: sc.queries.clone() });
    (lives.into_iter().map(|ops| LifeSpec { ops, snap: SnapMode::Off, fsmon: false }).collect(), pos)
}

pub fn run(dir: &std::path::Path, sc: &Scenario) -> Result<Outcome, String> {
    let (lives, pos) = build(sc);
    let res = run_lifetimes(dir, &sc.cfg, sc.entropy, &lives, false)?;
    for r in &res {
        if let Some(e) = &r.error {
            return Err(format!("engine error: {e}"));
        }
    }
    // mirror of run_lifetimes' clock: life li starts at BASE + sum(1000*(len+5)), op i runs at start + 1000*(i+1)
    let mut starts = Vec::new();
    let mut clock = BASE_CLOCK_MS;
    for l in &lives {
        starts.push(clock);
        clock += 1000 * (l.ops.len() as i64 + 5);
    }
    let mut rows = sc.rows.clone();
    for (i, (li, oi)) in pos.iter().enumerate() {
        rows[i].1.ts = (starts[*li] + 1000 * (*oi as i64 + 1)) / 1000;
    }
    // every STORE and layout op must have been answered 200
    for (li, r) in res.iter().enumerate() {
        for (oi, st) in r.steps.iter().enumerate() {
            if let JOp::Cmd { text } = &lives[li].ops[oi] {
                match st.replies.first() {
                    Some(rep) if rep.ok() => {}
                    other => return Err(format!("setup command not accepted: {text} -> {:?}", other.map(|r| (r.status, r.message.clone(), r.failure.clone())))),
                }
            }
            if st.blocked || st.note.starts_with("errors=") {
                return Err(format!("setup op failed: {:?} {}", lives[li].ops[oi], st.note));
            }
        }
    }
    let last = res.last().unwrap();
    let st = last.steps.last().unwrap();
    Ok(Outcome { rows, replies: st.replies.clone(), live: st.live.clone() })
}

/// keys (`k` column) of a selection reply, sorted; Err on an error reply
pub fn keys_of(r: &Reply) -> Result<Vec<i64>, String> {
    if let Some(f) = &r.failure {
        return Err(format!("failure: {f}"));
    }
    if r.status != 200 {
        return Err(format!("status {} {}", r.status, r.message));
    }
    let mut ks = Vec::new();
    for row in &r.rows {
        match row.get("k").and_then(|v| v.as_i64()) {
            Some(k) => ks.push(k),
            None => return Err(format!("row without integer k: {row:?}")),
        }
    }
    if let Some(a) = r.announced {
        if r.streaming && a as usize != r.rows.len() {
            return Err(format!("announced {a} rows, emitted {}", r.rows.len()));
        }
    }
    ks.sort();
    Ok(ks)
}
