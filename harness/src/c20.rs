//! C20 — every response encoding carries the same rows and values.
//! Each query of a result-shape alphabet is answered three times by the same
//! storage state: JSON frames, Arrow IPC stream, line-oriented text; the three
//! byte streams are decoded independently and compared cell by cell.
use crate::decode::{decode_json, Reply};
use crate::golden::Failing;
use crate::job::{Job, Op};
use crate::lab::*;
use crate::sys::{Fmt, SysConfig};
use arrow_array::cast::AsArray;
use arrow_array::{Array, RecordBatch};
use arrow_schema::DataType;
use serde_json::{json, Map, Value};
use std::collections::BTreeSet;

pub fn decode_text(bytes: &[u8]) -> Reply {
    // error / plain replies: "<code> <message>\n<lines>"; streaming replies: the same JSON frames
    let text = String::from_utf8_lossy(bytes);
    let first = text.lines().next().unwrap_or("");
    let mut it = first.splitn(2, ' ');
    if let (Some(code), rest) = (it.next(), it.next()) {
        if code.len() == 3 && code.chars().all(|c| c.is_ascii_digit()) {
            let lines: Vec<Value> = text.lines().skip(1).map(|l| json!(l)).collect();
            return Reply { status: code.parse().unwrap_or(0), message: rest.unwrap_or("").to_string(), results: lines, ..Default::default() };
        }
    }
    decode_json(bytes)
}

fn cell(arr: &dyn Array, i: usize) -> Result<Value, String> {
    if arr.is_null(i) {
        return Ok(Value::Null);
    }
    Ok(match arr.data_type() {
        DataType::Int64 => json!(arr.as_primitive::<arrow_array::types::Int64Type>().value(i)),
        DataType::UInt64 => json!(arr.as_primitive::<arrow_array::types::UInt64Type>().value(i)),
        DataType::Float64 => {
            let f = arr.as_primitive::<arrow_array::types::Float64Type>().value(i);
            serde_json::Number::from_f64(f).map(Value::Number).unwrap_or(json!(format!("<non-finite {f}>")))
        }
        DataType::Boolean => json!(arr.as_boolean().value(i)),
        DataType::Utf8 => json!(arr.as_string::<i32>().value(i)),
        DataType::LargeUtf8 => json!(arr.as_string::<i64>().value(i)),
        // raw stored number; the unit is judged separately (see `unit_mismatch`)
        DataType::Timestamp(unit, _) => match unit {
            arrow_schema::TimeUnit::Second => json!(arr.as_primitive::<arrow_array::types::TimestampSecondType>().value(i)),
            arrow_schema::TimeUnit::Millisecond => json!(arr.as_primitive::<arrow_array::types::TimestampMillisecondType>().value(i)),
            arrow_schema::TimeUnit::Microsecond => json!(arr.as_primitive::<arrow_array::types::TimestampMicrosecondType>().value(i)),
            arrow_schema::TimeUnit::Nanosecond => json!(arr.as_primitive::<arrow_array::types::TimestampNanosecondType>().value(i)),
        },
        other => return Err(format!("unsupported arrow type {other:?}")),
    })
}

pub fn decode_arrow(bytes: &[u8]) -> Reply {
    if bytes.first() == Some(&b'{') {
        return decode_json(bytes);
    }
    let reader = match arrow_ipc::reader::StreamReader::try_new(std::io::Cursor::new(bytes.to_vec()), None) {
        Ok(r) => r,
        Err(e) => return Reply::failed(format!("arrow stream: {e}")),
    };
    let schema = reader.schema();
    let mut r = Reply { status: 200, streaming: true, ..Default::default() };
    r.columns = schema.fields().iter().map(|f| (f.name().clone(), format!("{:?}", f.data_type()))).collect();
    for b in reader {
        let b: RecordBatch = match b {
            Ok(b) => b,
            Err(e) => return Reply::failed(format!("arrow batch: {e}")),
        };
        for i in 0..b.num_rows() {
            let mut m = Map::new();
            for (ci, f) in schema.fields().iter().enumerate() {
                match cell(b.column(ci).as_ref(), i) {
                    Ok(v) => {
                        m.insert(f.name().clone(), v);
                    }
                    Err(e) => return Reply::failed(e),
                }
            }
            r.rows.push(m);
        }
    }
    r
}

fn values_equal(a: &Value, b: &Value) -> bool {
    match (a, b) {
        (Value::Null, Value::Null) => true,
        (Value::Number(x), Value::Number(y)) => {
            let xi = x.as_i64().map(|v| v as i128).or(x.as_u64().map(|v| v as i128));
            let yi = y.as_i64().map(|v| v as i128).or(y.as_u64().map(|v| v as i128));
            match (xi, yi) {
                (Some(p), Some(q)) => p == q,
                _ => x.as_f64() == y.as_f64(),
            }
        }
        (Value::String(x), Value::String(y)) => x == y,
        (Value::Bool(x), Value::Bool(y)) => x == y,
        _ => false,
    }
}

pub fn compare(a: &Reply, an: &str, b: &Reply, bn: &str) -> Vec<String> {
    let mut d = Vec::new();
    if let Some(f) = &a.failure {
        d.push(format!("{an} undecodable: {f}"));
    }
    if let Some(f) = &b.failure {
        d.push(format!("{bn} undecodable: {f}"));
    }
    if !d.is_empty() {
        return d;
    }
    if a.status != b.status {
        d.push(format!("status {an}={} {bn}={}", a.status, b.status));
        return d;
    }
    if a.status != 200 {
        return d;
    }
    let ac: Vec<&String> = a.columns.iter().map(|c| &c.0).collect();
    let bc: Vec<&String> = b.columns.iter().map(|c| &c.0).collect();
    if a.streaming && b.streaming && ac != bc {
        d.push(format!("column names {an}={ac:?} {bn}={bc:?}"));
    }
    if a.rows.len() != b.rows.len() {
        d.push(format!("row count {an}={} {bn}={}", a.rows.len(), b.rows.len()));
        return d;
    }
    for (i, (ra, rb)) in a.rows.iter().zip(b.rows.iter()).enumerate() {
        let keys: BTreeSet<&String> = ra.keys().chain(rb.keys()).collect();
        for k in keys {
            let va = ra.get(k).cloned().unwrap_or(Value::Null);
            let vb = rb.get(k).cloned().unwrap_or(Value::Null);
            if !values_equal(&va, &vb) {
                let s = |v: &Value| {
                    let t = v.to_string();
                    if t.len() > 40 { format!("{}..", t.chars().take(40).collect::<String>()) } else { t }
                };
                d.push(format!("row {i} column {k}: {an}={} {bn}={}", s(&va), s(&vb)));
                if d.len() > 6 {
                    return d;
                }
            }
        }
    }
    d
}

pub fn class_of(diffs: &[String]) -> String {
    let d = &diffs[0];
    if diffs.iter().all(|x| x.starts_with("UNIT")) {
        "arrow timestamp unit".to_string()
    } else if d.contains("undecodable") || d.contains("no bytes") {
        "an encoding is not decodable / not produced".to_string()
    } else if d.starts_with("status") {
        "status code differs between encodings".to_string()
    } else if d.starts_with("column names") {
        "column names differ".to_string()
    } else if d.starts_with("row count") {
        "row count differs".to_string()
    } else if d.contains("announces") {
        "announced row count differs from emitted rows".to_string()
    } else {
        format!("cell value differs ({})", if d.contains("arrow") { "json vs arrow" } else { "json vs text" })
    }
}

fn setup_ops() -> Vec<Op> {
    let mut ops = vec![Op::Cmd {
        text: "DEFINE v FIELDS { id: \"int\", s: \"string\", i: \"int\", u: \"u64\", f: \"float\", b: \"bool\", e: [\"x\", \"y\"], o: \"int | null\", os: \"string | null\", d: \"datetime\" }".into(),
    }];
    let rows = vec![
        json!({"id": 1, "s": "plain", "i": 0, "u": 0, "f": 0.5, "b": true, "e": "x", "o": 1, "os": "t", "d": 1700000000}),
        json!({"id": 2, "s": "123", "i": i64::MAX, "u": u64::MAX, "f": 2.0, "b": false, "e": "y", "o": null, "os": null, "d": 1700003600}),
        json!({"id": 3, "s": "é☃", "i": i64::MIN, "u": 9223372036854775808u64, "f": -0.0, "b": true, "e": "x", "d": "2023-11-15T00:00:00Z"}),
        json!({"id": 4, "s": "", "i": -1, "u": 1, "f": 1e308, "b": false, "e": "y", "o": -5, "os": "", "d": 1700090000}),
        json!({"id": 5, "s": "true", "i": 7, "u": 7, "f": 1e-7, "b": true, "e": "x", "o": 7, "os": "null", "d": 1700000001}),
        json!({"id": 6, "s": "1.5", "i": 7, "u": 8, "f": 3.0, "b": false, "e": "y", "o": 7, "os": "7", "d": 1700000002}),
        json!({"id": 7, "s": "[1,2,3]", "i": 8, "u": 9, "f": 4.5, "b": true, "e": "x", "o": 8, "os": "{\"a\":1}", "d": 1700000003}),
    ];
    for (i, r) in rows.iter().enumerate() {
        ops.push(Op::Cmd { text: format!("STORE v FOR c{} PAYLOAD {}", i % 2, r) });
    }
    ops
}

fn queries() -> Vec<String> {
    vec![
        "QUERY v".into(),
        "QUERY v RETURN [s]".into(),
        "QUERY v RETURN [i, u, f]".into(),
        "QUERY v RETURN [b, e, o, os, d]".into(),
        "QUERY v WHERE i = 7".into(),
        "QUERY v WHERE id = 99".into(),
        "QUERY v FOR c0".into(),
        "REPLAY v FOR c1".into(),
        "REPLAY v FOR c1 RETURN [s, f]".into(),
        "QUERY v ORDER BY id LIMIT 3".into(),
        "QUERY v ORDER BY id DESC LIMIT 2 OFFSET 1".into(),
        "QUERY v ORDER BY s".into(),
        "QUERY v LIMIT 2".into(),
        "QUERY v LIMIT 0".into(),
        "QUERY v LIMIT 3 OFFSET 2".into(),
        "QUERY v COUNT".into(),
        "QUERY v COUNT BY b".into(),
        "QUERY v COUNT, TOTAL i, AVG f, MIN s, MAX s, MIN i, MAX u BY e".into(),
        "QUERY v AVG f, TOTAL f".into(),
        "QUERY v COUNT UNIQUE s BY o".into(),
        "QUERY v COUNT PER DAY USING d".into(),
        "QUERY v TOTAL u PER HOUR USING d BY b".into(),
        "QUERY v MAX i, MIN i".into(),
        "QUERY v WHERE id = 99 COUNT".into(),
        "QUERY v OFFSET 1".into(),
        "QUERY nosuchtype".into(),
        "QUERY v WHERE nosuchfield = 1".into(),
        "REPLAY v FOR nobody".into(),
        "PING".into(),
        "FLUSH".into(),
    ]
}

pub fn check(tier: &str) -> i32 {
    let t0 = std::time::Instant::now();
    let scratch = Scratch::new("c20");
    let qs = queries();
    let batch_sizes: Vec<Option<usize>> = if tier == "quick" { vec![None, Some(0), Some(1)] } else { vec![None, Some(0), Some(1), Some(2)] };
    let layouts = ["mem", "flushed"];
    let work: Vec<(Option<usize>, &str)> = batch_sizes.iter().flat_map(|b| layouts.iter().map(move |l| (*b, *l))).collect();
    let res = par_map(&work, threads(), |wi, (bs, layout)| -> Result<Vec<(String, Vec<String>, usize)>, String> {
        let mut ops = setup_ops();
        if *layout == "flushed" {
            ops.push(Op::FlushSeq);
        }
        let base = ops.len();
        // FLUSH is last so that it does not change the layout under the other queries
        for q in &qs {
            for fmt in [Fmt::Json, Fmt::Arrow, Fmt::Text] {
                ops.push(Op::CmdRaw { text: q.clone(), fmt });
            }
        }
        let job = Job {
            root: scratch.dir.join(format!("w{wi}/db")).to_string_lossy().into_owned(),
            cfg: SysConfig { fill_factor: 16, event_per_zone: 4, streaming_batch_size: *bs, ..Default::default() },
            entropy: 41,
            clock_ms: BASE_CLOCK_MS,
            clock_step_ms: 1000,
            ops,
            ..Default::default()
        };
        let r = crate::explore::run_child(&job, &scratch.dir.join(format!("w{wi}/job.json")))?;
        let _ = std::fs::remove_dir_all(scratch.dir.join(format!("w{wi}")));
        if let Some(e) = &r.error {
            return Err(e.clone());
        }
        let mut out = Vec::new();
        for (qi, q) in qs.iter().enumerate() {
            let raw = |k: usize| -> Result<Vec<u8>, String> {
                let st = &r.steps[base + qi * 3 + k];
                match &st.raw_hex {
                    Some(h) => hex::decode(h).map_err(|e| e.to_string()),
                    None => Err(format!("no bytes: {} blocked={}", st.note, st.blocked)),
                }
            };
            let mut diffs: Vec<String> = Vec::new();
            let (j, a, t) = (raw(0), raw(1), raw(2));
            let mut rows = 0;
            match (j, a, t) {
                (Ok(j), Ok(a), Ok(t)) => {
                    let rj = decode_json(&j);
                    let ra = decode_arrow(&a);
                    let rt = decode_text(&t);
                    rows = rj.rows.len();
                    diffs.extend(compare(&rj, "json", &ra, "arrow"));
                    // a column typed Timestamp(ms|us|ns) whose numbers equal the JSON epoch-second
                    // numbers denotes another instant for an Arrow reader
                    for (name, ty) in &ra.columns {
                        if ty.starts_with("Timestamp(") && !ty.starts_with("Timestamp(Second") && ra.rows.iter().zip(rj.rows.iter()).any(|(x, y)| x.get(name).map_or(false, |v| !v.is_null() && Some(v) == y.get(name))) {
                            diffs.push(format!("UNIT column {name} is {ty} in the Arrow schema but carries the epoch-second numbers of the JSON encoding"));
                            break;
                        }
                    }
                    diffs.extend(compare(&rj, "json", &rt, "text"));
                    if rj.streaming {
                        if let Some(n) = rj.announced {
                            if n as usize != rj.rows.len() {
                                diffs.push(format!("json end frame announces {n} rows, {} emitted", rj.rows.len()));
                            }
                        }
                    }
                    if rt.streaming {
                        if let Some(n) = rt.announced {
                            if n as usize != rt.rows.len() {
                                diffs.push(format!("text end frame announces {n} rows, {} emitted", rt.rows.len()));
                            }
                        }
                    }
                }
                (j, a, t) => {
                    for (n, x) in [("json", j), ("arrow", a), ("text", t)] {
                        if let Err(e) = x {
                            diffs.push(format!("{n}: {e}"));
                        }
                    }
                }
            }
            out.push((q.clone(), diffs, rows));
        }
        Ok(out)
    });
    let mut failing = Vec::new();
    let mut evals = 0u64;
    let mut nontrivial = 0u64;
    for (wi, r) in res.iter().enumerate() {
        match r {
            Err(e) => {
                eprintln!("MACHINERY: {e}");
                return 2;
            }
            Ok(v) => {
                for (q, diffs, rows) in v {
                    evals += 3;
                    if *rows > 0 {
                        nontrivial += 1;
                    }
                    if !diffs.is_empty() {
                        let class = class_of(diffs);
                        failing.push(Failing {
                            key: format!("batch={:?}|{}|{q}", work[wi].0, work[wi].1),
                            digest: crate::golden::digest(&diffs.join(";")),
                            class,
                            detail: json!({"query": q, "differences": diffs}),
                        });
                    }
                }
            }
        }
    }
    // component level: the writers fed directly with every small batch sequence
    let (wcases, wnontrivial, woutcomes, wsizes) = match crate::c20w::run(&scratch, tier) {
        Ok((f, c, n, o, s)) => {
            failing.extend(f);
            (c, n, o, s)
        }
        Err(e) => {
            eprintln!("MACHINERY: {e}");
            return 2;
        }
    };
    evals += wcases * 3;
    nontrivial += wnontrivial;
    let verdict = crate::golden::judge("C20", tier, &failing);
    let nv = crate::golden::report("C20", &verdict, &|_| "the three encodings of one answer do not decode to the same table (exact cases in known/C20.*.json)".to_string(), 6);
    write_evidence(&Evidence {
        property_id: "C20".into(),
        tier: tier.into(),
        seed: seed(),
        level: "exploration".into(),
        coverage: json!({
            "evaluations": evals,
            "distinct_nontrivial": nontrivial,
            "rule": format!("{} commands (selections with every RETURN shape, WHERE / FOR, REPLAY, ORDER BY + LIMIT/OFFSET grid points, aggregate tables with every metric kind, BY and PER, empty results, error replies of four kinds, PING, FLUSH) on rows holding nulls, integers at the 64-bit limits, u64 above i64::MAX, -0.0 / 1e308 / 1e-7 / integral floats, empty, numeric-looking, keyword-looking and non-ASCII strings x layouts {{memory, flushed}} x response batch sizes {:?}; each answered through JsonRenderer, ArrowRenderer and UnixRenderer by the real response writer, decoded independently (serde_json, arrow_ipc StreamReader, line parser) and compared: status, column names, row count, every cell (numbers numerically, nulls as nulls, strings byte-identical), announced row count; distinct_nontrivial = (state, command) pairs with at least one row", qs.len(), batch_sizes),
            "samples": qs.iter().step_by(4).take(8).collect::<Vec<_>>(),
            "failing_cases": failing.len(),
            "writer_level": {"cases": wcases, "streaming_batch_sizes": wsizes, "distinct_row_counts": woutcomes, "cases_where_limit_offset_or_dedup_cut_the_input": wnontrivial,
                "rule": "QueryResponseWriter and ShowResponseWriter (materialised frames 0/1, watermark filtering on/off) fed directly with every composition of n<=5 (thorough 7) rows into batches (plus empty batches) x every duplicate-id pattern up to renaming x LIMIT in {none, 0..n+1} x OFFSET in {none, 0, 1, 2, n}, rendered by the JSON, Arrow and text renderers and compared as above"},
            "exhaustive": true,
        }),
        assumptions: vec!["an Arrow timestamp column is compared as the instant it denotes (ms -> s)".into(), "hand-built column batches (cells whose runtime type differs from the declared one, non-finite floats) are not fed to the writer: only results the engine itself produces".into()],
        wall_s: t0.elapsed().as_secs_f64(),
        violations: nv,
    });
    if nv == 0 { 0 } else { 1 }
}
