//! C13 — no data command runs without authentication and the required permission.
//! Explicit-state BFS over the authorisation state of one target user (role x
//! read/write grants x key active x session token) through the real TCP
//! authentication gate + dispatch; at every state a probe matrix
//! (command kind x authentication form x credential validity) is judged against
//! a reference authorisation matrix written from the property statement.
use crate::job::{Job, Op};
use crate::lab::*;
use crate::sys::SysConfig;
use hmac::{Hmac, Mac};
use serde_json::json;
use sha2::Sha256;
use std::collections::{BTreeMap, BTreeSet, VecDeque};

const ADMIN: &str = "root";
const ADMIN_KEY: &str = "root-secret-key";
const UKEY: &str = "target-user-key";
const OKEY: &str = "other-user-key";

fn sign(key: &str, msg: &str) -> String {
    let mut mac = Hmac::<Sha256>::new_from_slice(key.as_bytes()).unwrap();
    mac.update(msg.as_bytes());
    hex::encode(mac.finalize().into_bytes())
}

fn as_admin(cmd: &str) -> Op {
    Op::Serve { conn: 0, line: format!("{ADMIN}:{}:{cmd}", sign(ADMIN_KEY, cmd)) }
}

#[derive(Debug, Clone, Copy, PartialEq, Eq, PartialOrd, Ord, Hash)]
enum Act {
    GrantR,
    GrantW,
    /// one GRANT naming both event types (t1 first)
    GrantR12,
    GrantW12,
    RevokeR,
    RevokeW,
    RevokeKey,
    Auth,
    Expire,
}

#[derive(Debug, Clone, Copy, PartialEq, Eq, PartialOrd, Ord, Hash)]
enum Tok {
    None,
    Live,
    Dead,
}

#[derive(Debug, Clone, Copy, PartialEq, Eq, PartialOrd, Ord, Hash)]
struct St {
    r: bool,
    w: bool,
    /// explicit grants on the second event type
    r2: bool,
    w2: bool,
    /// the last permission command on t1 for this user was an acknowledged REVOKE READ / WRITE
    rrev: bool,
    wrev: bool,
    active: bool,
    tok: Tok,
}

fn step(s: St, a: Act) -> St {
    let mut n = s;
    match a {
        Act::GrantR => {
            n.r = true;
            n.rrev = false;
        }
        Act::GrantW => {
            n.w = true;
            n.wrev = false;
        }
        Act::GrantR12 => {
            n.r = true;
            n.rrev = false;
            n.r2 = true;
        }
        Act::GrantW12 => {
            n.w = true;
            n.wrev = false;
            n.w2 = true;
        }
        Act::RevokeR => {
            n.r = false;
            n.rrev = true;
        }
        Act::RevokeW => {
            n.w = false;
            n.wrev = true;
        }
        Act::RevokeKey => {
            n.active = false;
            if n.tok == Tok::Live {
                n.tok = Tok::Dead;
            }
        }
        Act::Auth => {
            if n.active {
                n.tok = Tok::Live;
            }
        }
        Act::Expire => {
            if n.tok == Tok::Live {
                n.tok = Tok::Dead;
            }
        }
    }
    n
}

#[derive(Debug, Clone, Copy, PartialEq, Eq)]
enum Need {
    Read1,
    Read2,
    Read12,
    Write1,
    Write2,
    Authenticated,
    Admin,
}

/// (kind, command template with {n} for a unique suffix, requirement)
fn kinds() -> Vec<(&'static str, &'static str, Need)> {
    vec![
        ("STORE", "STORE t1 FOR c9 PAYLOAD {\"k\":7,\"s\":\"p{n}\"}", Need::Write1),
        ("STORE payload with TOKEN and colons", "STORE t1 FOR c9 PAYLOAD {\"k\":8,\"s\":\"a:b: TOKEN deadbeef x:y\"}", Need::Write1),
        ("STORE other type", "STORE t2 FOR c9 PAYLOAD {\"k\":9,\"s\":\"q{n}\"}", Need::Write2),
        ("QUERY", "QUERY t1", Need::Read1),
        ("QUERY other type", "QUERY t2", Need::Read2),
        ("QUERY aggregate", "QUERY t1 COUNT", Need::Read1),
        ("REPLAY", "REPLAY t1 FOR c0", Need::Read1),
        ("REPLAY wildcard", "REPLAY FOR c0", Need::Read12),
        ("sequence query", "QUERY t1 FOLLOWED BY t2 LINKED BY s", Need::Read12),
        ("REMEMBER", "REMEMBER QUERY t1 AS mm{n}", Need::Read1),
        ("SHOW", "SHOW m0", Need::Read1),
        ("FLUSH", "FLUSH", Need::Authenticated),
        ("DEFINE", "DEFINE t3x{n} FIELDS { k: \"int\" }", Need::Admin),
        ("CREATE USER", "CREATE USER nu{n}", Need::Admin),
        ("GRANT", "GRANT READ ON t2 TO other", Need::Admin),
        ("SHOW PERMISSIONS", "SHOW PERMISSIONS FOR other", Need::Admin),
        ("LIST USERS", "LIST USERS", Need::Admin),
        ("REVOKE KEY", "REVOKE KEY nobody{n}", Need::Admin),
    ]
}

#[derive(Debug, Clone, Copy, PartialEq, Eq)]
enum Form {
    InlineValid,
    InlineWrongSig,
    InlineTruncatedSig,
    InlineSigOfOtherUser,
    InlineUnknownUser,
    ConnScopedValid,
    ConnScopedWrongSig,
    TokenOfSession,
    TokenGarbage,
    Unauthenticated,
}

const FORMS: [Form; 10] = [
    Form::InlineValid,
    Form::InlineWrongSig,
    Form::InlineTruncatedSig,
    Form::InlineSigOfOtherUser,
    Form::InlineUnknownUser,
    Form::ConnScopedValid,
    Form::ConnScopedWrongSig,
    Form::TokenOfSession,
    Form::TokenGarbage,
    Form::Unauthenticated,
];

fn role_reads(role: &str) -> bool {
    matches!(role, "admin" | "read-only" | "viewer" | "editor")
}
fn role_writes(role: &str) -> bool {
    matches!(role, "admin" | "editor" | "write-only")
}

struct Root {
    user: &'static str,
    role: &'static str,
}

pub fn check(tier: &str) -> i32 {
    let t0 = std::time::Instant::now();
    let kf = crate::known::load();
    let scratch = Scratch::new("c13");
    let depth = if tier == "quick" { 3 } else { 4 };
    let roots: Vec<Root> = vec![
        Root { user: "u1", role: "" },
        Root { user: "u1", role: "read-only" },
        Root { user: "u1", role: "viewer" },
        Root { user: "u1", role: "editor" },
        Root { user: "u1", role: "write-only" },
        Root { user: "u1", role: "admin" },
        Root { user: "bypass", role: "" },
        Root { user: "no-auth", role: "" },
        Root { user: "Root", role: "" },
    ];
    let acts = [Act::GrantR, Act::GrantW, Act::GrantR12, Act::GrantW12, Act::RevokeR, Act::RevokeW, Act::RevokeKey, Act::Auth, Act::Expire];
    // BFS over the reference state; every newly reached state is realised by replaying its path
    let init = St { r: false, w: false, r2: false, w2: false, rrev: false, wrev: false, active: true, tok: Tok::None };
    let mut paths: Vec<(St, Vec<Act>)> = Vec::new();
    let mut seen: BTreeSet<St> = BTreeSet::new();
    let mut fr: VecDeque<(St, Vec<Act>)> = VecDeque::new();
    seen.insert(init);
    fr.push_back((init, vec![]));
    let mut transitions = 0usize;
    while let Some((s, p)) = fr.pop_front() {
        paths.push((s, p.clone()));
        if p.len() >= depth {
            continue;
        }
        for a in acts {
            transitions += 1;
            let n = step(s, a);
            if seen.insert(n) {
                let mut p2 = p.clone();
                p2.push(a);
                fr.push_back((n, p2));
            }
        }
    }
    // additionally: the same state reached through a different (longer) path — "start from elsewhere"
    let extra: Vec<(St, Vec<Act>)> = vec![
        (step(step(step(init, Act::GrantR), Act::RevokeR), Act::GrantW), vec![Act::GrantR, Act::RevokeR, Act::GrantW]),
        (step(step(step(init, Act::Auth), Act::RevokeKey), Act::GrantR), vec![Act::Auth, Act::RevokeKey, Act::GrantR]),
        (step(step(step(init, Act::Auth), Act::Expire), Act::Auth), vec![Act::Auth, Act::Expire, Act::Auth]),
    ];
    paths.extend(extra);
    let kinds = kinds();
    // persistence: the same probes in a fresh process after the history, with a short and with a long
    // (> 8 KiB) authorisation log written between the user's creation and the actions
    let persist_paths: Vec<(St, Vec<Act>)> = [vec![Act::RevokeKey], vec![Act::GrantR, Act::RevokeR], vec![Act::GrantW, Act::RevokeW], vec![Act::GrantR12], vec![Act::GrantR, Act::RevokeKey]]
        .into_iter()
        .map(|p| (p.iter().fold(init, |s, a| step(s, *a)), p))
        .collect();
    let n_plain = paths.len();
    paths.extend(persist_paths.iter().cloned());
    paths.extend(persist_paths.iter().cloned());
    let n_persist = persist_paths.len();
    // (root, path, filler records, restart before the probes)
    let mut work: Vec<(usize, usize, usize, bool)> = (0..roots.len()).flat_map(|r| (0..n_plain).map(move |p| (r, p, 0usize, false))).collect();
    for r in [0usize, 3] {
        for j in 0..n_persist {
            work.push((r, n_plain + j, 0, true));
            work.push((r, n_plain + n_persist + j, 160, true));
        }
    }
    // (class, example, executed_without_right)
    let res = par_map(&work, threads(), |wi, (ri, pi, filler, restart)| -> Result<(Vec<(String, String)>, usize, usize, bool), String> {
        let root = &roots[*ri];
        let (st0, path) = &paths[*pi];
        // sessions do not survive a restart
        let st_restart = St { tok: Tok::None, ..*st0 };
        let st = if *restart { &st_restart } else { st0 };
        let u = root.user;
        let mut ops = vec![
            as_admin("DEFINE t1 FIELDS { k: \"int\", s: \"string\" }"),
            as_admin("DEFINE t2 FIELDS { k: \"int\", s: \"string\" }"),
            as_admin("STORE t1 FOR c0 PAYLOAD {\"k\":1,\"s\":\"x\"}"),
            as_admin("STORE t2 FOR c0 PAYLOAD {\"k\":2,\"s\":\"x\"}"),
            as_admin("REMEMBER QUERY t1 AS m0"),
            as_admin(&format!("CREATE USER other WITH KEY \"{OKEY}\"")),
        ];
        let create_idx = ops.len();
        ops.push(as_admin(&if root.role.is_empty() { format!("CREATE USER {u} WITH KEY \"{UKEY}\"") } else { format!("CREATE USER {u} WITH KEY \"{UKEY}\" WITH ROLES [\"{}\"]", root.role) }));
        for i in 0..*filler {
            ops.push(as_admin(&format!("CREATE USER filler{i} WITH KEY \"filler-key-{i}\"")));
        }
        for a in path {
            match a {
                Act::GrantR => ops.push(as_admin(&format!("GRANT READ ON t1 TO {u}"))),
                Act::GrantW => ops.push(as_admin(&format!("GRANT WRITE ON t1 TO {u}"))),
                Act::GrantR12 => ops.push(as_admin(&format!("GRANT READ ON t1, t2 TO {u}"))),
                Act::GrantW12 => ops.push(as_admin(&format!("GRANT WRITE ON t1, t2 TO {u}"))),
                Act::RevokeR => ops.push(as_admin(&format!("REVOKE READ ON t1 FROM {u}"))),
                Act::RevokeW => ops.push(as_admin(&format!("REVOKE WRITE ON t1 FROM {u}"))),
                Act::RevokeKey => ops.push(as_admin(&format!("REVOKE KEY {u}"))),
                Act::Auth => ops.push(Op::Serve { conn: 1, line: format!("AUTH {u}:{}", sign(UKEY, u)) }),
                Act::Expire => ops.push(Op::Tick { ms: 301_000 }),
            }
        }
        // connection 2: connection-scoped authentication for the probes
        ops.push(Op::Serve { conn: 2, line: format!("AUTH {u}:{}", sign(UKEY, u)) });
        let probe_base = ops.len();
        let mut n = 0usize;
        for (_, tmpl, _) in &kinds {
            for f in FORMS {
                n += 1;
                let cmd = tmpl.replace("{n}", &format!("{n}"));
                let sig = sign(UKEY, &cmd);
                let mut wrong = sig.clone();
                let last = wrong.pop().unwrap();
                wrong.push(if last == '0' { '1' } else { '0' });
                let (conn, line) = match f {
                    Form::InlineValid => (10, format!("{u}:{sig}:{cmd}")),
                    Form::InlineWrongSig => (10, format!("{u}:{wrong}:{cmd}")),
                    Form::InlineTruncatedSig => (10, format!("{u}:{}:{cmd}", &sig[..32])),
                    Form::InlineSigOfOtherUser => (10, format!("{u}:{}:{cmd}", sign(OKEY, &cmd))),
                    Form::InlineUnknownUser => (10, format!("ghost:{sig}:{cmd}")),
                    Form::ConnScopedValid => (2, format!("{sig}:{cmd}")),
                    Form::ConnScopedWrongSig => (2, format!("{wrong}:{cmd}")),
                    Form::TokenOfSession => (10, format!("{cmd} TOKEN {{TOKEN:1}}")),
                    Form::TokenGarbage => (10, format!("{cmd} TOKEN {}", "ab".repeat(32))),
                    Form::Unauthenticated => (10, cmd.clone()),
                };
                ops.push(Op::Serve { conn, line });
            }
        }
        let job = Job {
            root: scratch.dir.join(format!("w{wi}/db")).to_string_lossy().into_owned(),
            cfg: SysConfig { bypass_auth: false, admin_user: Some(ADMIN.into()), admin_key: Some(ADMIN_KEY.into()), fill_factor: 64, event_per_zone: 8, ..Default::default() },
            entropy: 61,
            clock_ms: BASE_CLOCK_MS,
            clock_step_ms: 0,
            ops,
            ..Default::default()
        };
        let r = if *restart {
            // everything up to the probes' connection-scoped AUTH runs in a first process
            let split = probe_base - 1;
            let lives = vec![LifeSpec { ops: job.ops[..split].to_vec(), snap: crate::job::SnapMode::Off, fsmon: false }, LifeSpec { ops: job.ops[split..].to_vec(), snap: crate::job::SnapMode::Off, fsmon: false }];
            let mut rr = run_lifetimes_clock(&scratch.dir.join(format!("w{wi}")), &job.cfg, job.entropy, &lives, 0)?;
            for x in &rr {
                if let Some(e) = &x.error {
                    return Err(e.clone());
                }
            }
            let second = rr.pop().unwrap();
            let mut first = rr.pop().unwrap();
            first.steps.extend(second.steps);
            first
        } else {
            crate::explore::run_child(&job, &scratch.dir.join(format!("w{wi}/job.json")))?
        };
        let _ = std::fs::remove_dir_all(scratch.dir.join(format!("w{wi}")));
        if let Some(e) = &r.error {
            return Err(e.clone());
        }
        // setup must have worked (as admin)
        for i in 0..create_idx {
            if r.steps[i].replies.first().map(|x| x.status) != Some(200) {
                return Err(format!("admin setup step {i} failed: {:?}", r.steps[i].replies.first().map(|x| (x.status, x.message.clone()))));
            }
        }
        let created = r.steps[create_idx].replies.first().map(|x| x.status) == Some(200);
        if !created {
            // an id the system does not let an admin create is outside the property's quantifier
            return Ok((vec![], 0, 0, false));
        }
        let mut out: Vec<(String, String)> = Vec::new();
        let mut judged = 0;
        let mut executed_n = 0;
        let role = root.role;
        let mut idx = probe_base;
        for (kind, _, need) in &kinds {
            for f in FORMS {
                let stp = &r.steps[idx];
                idx += 1;
                judged += 1;
                let status = stp.replies.first().map(|x| x.status).unwrap_or(0);
                let executed = status == 200;
                if executed {
                    executed_n += 1;
                }
                let authenticated = match f {
                    Form::InlineValid | Form::ConnScopedValid => st.active,
                    Form::TokenOfSession => st.tok == Tok::Live && st.active,
                    _ => false,
                };
                let can_r1 = role_reads(role) || st.r;
                let can_w1 = role_writes(role) || st.w;
                let can_r2 = role_reads(role) || st.r2;
                let can_w2 = role_writes(role) || st.w2;
                let permitted = match need {
                    Need::Read1 => can_r1,
                    Need::Read2 => can_r2,
                    Need::Read12 => can_r1 && can_r2,
                    Need::Write1 => can_w1,
                    Need::Write2 => can_w2,
                    Need::Authenticated => true,
                    Need::Admin => role == "admin",
                };
                if stp.blocked || !stp.note.starts_with("user=") && stp.replies.is_empty() {
                    out.push((format!("no answer: {kind}"), format!("{f:?} in state {st:?}")));
                    continue;
                }
                // second direction, for the clause 'revoking a permission takes effect for the next
                // request': after an acknowledged REVOKE of the right a command needs on t1, a
                // non-admin user's command is not executed, whatever role the user has
                let revoked = match need {
                    Need::Read1 => st.rrev,
                    Need::Write1 => st.wrev,
                    _ => false,
                };
                if executed && authenticated && permitted && revoked && role != "admin" {
                    // the listed pristine defect needs the complementary grant to be in place
                    let variant = match need {
                        Need::Read1 if st.w => " while holding a WRITE grant on the type",
                        Need::Write1 if st.r => " while holding a READ grant on the type",
                        _ => "",
                    };
                    out.push((format!("{kind} executed after the needed permission was revoked (user with a granting role){variant}"), format!("user {u:?} role {role:?} state {st:?} path {path:?}: {kind} via {f:?} was executed although the last permission command was an acknowledged REVOKE")));
                }
                // classes that are listed findings keep their name; anything else seen only after a restart says so
                let suffix = if *restart { format!(" [after a restart{}]", if *filler > 0 { ", long authorisation log" } else { "" }) } else { String::new() };
                let name = |c: String| if kf.is_known("C13", &c) { c } else { format!("{c}{suffix}") };
                if executed && !(authenticated && permitted) {
                    let why = if !authenticated { format!("without valid authentication ({f:?})") } else { format!("without the required permission ({need:?})") };
                    let idclass = if u == "bypass" { " [user id \"bypass\"]".to_string() } else { String::new() };
                    out.push((
                        name(format!("{kind} executed {}{idclass}", if !authenticated { "without valid authentication".to_string() } else { format!("without {need:?} permission") })),
                        format!("user {u:?} role {role:?} state {st:?} path {path:?}: {kind} via {f:?} was executed {why}"),
                    ));
                }
            }
        }
        if *restart && std::env::var("VERIF_DEBUG").is_ok() {
            eprintln!("DEBUG restart root={} path={:?} filler={} executed={}", root.role, path, filler, executed_n);
        }
        Ok((out, judged, executed_n, true))
    });
    let mut by_class: BTreeMap<String, Vec<String>> = BTreeMap::new();
    let mut judged = 0usize;
    let mut executed = 0usize;
    let mut realised = 0usize;
    for r in &res {
        match r {
            Err(e) => {
                eprintln!("MACHINERY: {e}");
                return 2;
            }
            Ok((v, j, ex, created)) => {
                judged += j;
                executed += ex;
                if *created {
                    realised += 1;
                }
                for (c, m) in v {
                    by_class.entry(c.clone()).or_default().push(m.clone());
                }
            }
        }
    }
    if executed == 0 {
        eprintln!("MACHINERY: no probe was ever executed (vacuous run)");
        return 2;
    }
    clear_replays("C13");
    let mut nv = 0;
    for (class, ms) in &by_class {
        if kf.is_known("C13", class) {
            println!("KNOWN-FINDING: property=C13 {class}: {} [{} probes, e.g. {}]", kf.describe("C13", class), ms.len(), ms[0].chars().take(220).collect::<String>());
        } else {
            nv += 1;
            let path = write_replay("C13", &json!({"property": "C13", "class": class, "example": ms[0], "count": ms.len(), "more": ms.iter().take(10).collect::<Vec<_>>()}));
            println!("VIOLATION property=C13 replay={path}");
            eprintln!("  [{class}] {} ({} probes)", ms[0].chars().take(260).collect::<String>(), ms.len());
        }
    }
    write_evidence(&Evidence {
        property_id: "C13".into(),
        tier: tier.into(),
        seed: seed(),
        level: "model_checking".into(),
        coverage: json!({
            "states": seen.len() * roots.len(),
            "transitions": transitions * roots.len(),
            "traces_validated_against_impl": realised,
            "samples": paths.iter().step_by((paths.len() / 6).max(1)).take(6).map(|(s, p)| json!({"state": format!("{s:?}"), "path": format!("{p:?}")})).collect::<Vec<_>>(),
            "reference_states_per_root": seen.len(),
            "roots": roots.iter().map(|r| format!("{}:{}", r.user, r.role)).collect::<Vec<_>>(),
            "states_realised_on_the_engine": realised,
            "probes_judged": judged,
            "probes_executed": executed,
            "command_kinds": kinds.len(),
            "authentication_forms": FORMS.len(),
            "depth": depth,
            "exhaustive": true,
            "explanation": "BFS over the reference authorisation state of a target user (read grant, write grant, key active, session token none/live/dead) under the actions {GRANT READ, GRANT WRITE, GRANT READ on two types, GRANT WRITE on two types, REVOKE READ, REVOKE WRITE, REVOKE KEY, AUTH, advance the clock past session expiry}, for every root (role in {none, read-only, viewer, editor, write-only, admin} and the user ids bypass, no-auth, Root); every state is realised on the real engine by replaying its path through the TCP listener's own authentication gate (check_auth) + parse + dispatch, then 18 command kinds (incl. STORE and QUERY on the second type) x 10 authentication forms are probed; a probe that is executed (status 200) although the reference matrix says unauthenticated or not permitted is a violation",
        }),
        assumptions: vec!["the TCP gate function is driven directly (hook H7), the HTTP and WebSocket gates are not".into(), "one-directional oracle: executed => authenticated and permitted (denials of permitted requests are not judged)".into(), "read permission on t2 only through a reading role".into()],
        wall_s: t0.elapsed().as_secs_f64(),
        violations: nv,
    });
    if nv == 0 { 0 } else { 1 }
}
