//! C17 — parsing and dispatch are total; the parser preserves structure.
//! (a) every token string up to length L (prefixed by each command keyword),
//! (b) every WHERE tree up to n leaves and every clause subset: print -> parse = id,
//!     keyword case variants parse to the same command,
//! (c) all single-token deletions / duplications / substitutions of a corpus,
//! (d) nesting-depth sweep, each parse in a subprocess with a time budget,
//! (e) every distinct parsed command dispatched against a live system.
use crate::job::{Job, Op};
use crate::lab::*;
use crate::sys::SysConfig;
use serde_json::{json, Value};
use snel_db::command::parser::parse_command;
use snel_db::command::types::{Command, CompareOp, Expr};
use std::collections::{BTreeMap, BTreeSet};
use std::time::{Duration, Instant};

const TOKENS: &[&str] = &[
    "QUERY", "query", "a", "FOR", "c0", "WHERE", "k", "=", "!=", ">=", "1", "-1", "1.5", "9999999999",
    "99999999999999999999", "(", ")", "[", "]", ",", "\"x\"", "\"", "{", "}", "AND", "OR", "NOT", "IN",
    "LIMIT", "OFFSET", "COUNT", "BY", "PER", "DAY", "RETURN", "SINCE", "ORDER", "é", "limit", "PAYLOAD", "FIELDS", ":",
];
const PREFIXES: &[&str] = &[
    "QUERY a", "query a WHERE", "QUERY a LIMIT", "QUERY a WHERE k =", "FIND a", "STORE a FOR c0 PAYLOAD", "STORE", "DEFINE a FIELDS", "DEFINE",
    "REPLAY", "REPLAY a FOR", "REMEMBER QUERY a", "REMEMBER", "SHOW", "FLUSH", "PING", "BATCH", "PLOT", "CREATE USER", "GRANT", "REVOKE", "LIST", "",
];

#[derive(Debug, Clone)]
pub enum Outcome {
    Parsed(Command),
    Rejected,
    Panicked(String),
}

pub fn try_parse(s: &str) -> Outcome {
    match std::panic::catch_unwind(|| parse_command(s)) {
        Ok(Ok(c)) => Outcome::Parsed(c),
        Ok(Err(_)) => Outcome::Rejected,
        Err(p) => Outcome::Panicked(
            p.downcast_ref::<String>().cloned().or_else(|| p.downcast_ref::<&str>().map(|s| s.to_string())).unwrap_or_else(|| "panic".into()),
        ),
    }
}

// ---- printer for WHERE trees with minimal parentheses -----------------------

fn op_str(op: &CompareOp) -> &'static str {
    match op {
        CompareOp::Eq => "=",
        CompareOp::Neq => "!=",
        CompareOp::Gt => ">",
        CompareOp::Gte => ">=",
        CompareOp::Lt => "<",
        CompareOp::Lte => "<=",
        CompareOp::In => "IN",
    }
}

fn val_str(v: &Value) -> String {
    match v {
        Value::String(s) => format!("\"{s}\""),
        other => other.to_string(),
    }
}

/// precedence: OR=1, AND=2, NOT=3, leaf=4. The grammar is right-recursive, so a
/// left operand of the same operator needs parentheses.
fn print_expr(e: &Expr, kw: &dyn Fn(&str) -> String) -> String {
    fn prec(e: &Expr) -> u8 {
        match e {
            Expr::Or(..) => 1,
            Expr::And(..) => 2,
            Expr::Not(..) => 3,
            _ => 4,
        }
    }
    fn wrap(child: &Expr, min: u8, kw: &dyn Fn(&str) -> String) -> String {
        let s = print_expr(child, kw);
        if prec(child) < min { format!("({s})") } else { s }
    }
    match e {
        Expr::Compare { field, op, value } => format!("{field} {} {}", op_str(op), val_str(value)),
        Expr::In { field, values } => format!("{field} {} ({})", kw("IN"), values.iter().map(val_str).collect::<Vec<_>>().join(", ")),
        Expr::Not(x) => format!("{} {}", kw("NOT"), wrap(x, 3, kw)),
        Expr::And(l, r) => format!("{} {} {}", wrap(l, 3, kw), kw("AND"), wrap(r, 2, kw)),
        Expr::Or(l, r) => format!("{} {} {}", wrap(l, 2, kw), kw("OR"), wrap(r, 1, kw)),
    }
}

fn leaves_exprs() -> Vec<Expr> {
    vec![
        Expr::Compare { field: "k".into(), op: CompareOp::Eq, value: json!(1) },
        Expr::Compare { field: "s".into(), op: CompareOp::Neq, value: json!("x") },
        Expr::Compare { field: "p".into(), op: CompareOp::Lte, value: json!(-2) },
        Expr::In { field: "k".into(), values: vec![json!(1), json!(2)] },
    ]
}

/// all trees with exactly n leaves (binary AND/OR, unary NOT at most once per node)
fn trees(n: usize, memo: &mut BTreeMap<usize, Vec<Expr>>) -> Vec<Expr> {
    if let Some(v) = memo.get(&n) {
        return v.clone();
    }
    let mut out = Vec::new();
    if n == 1 {
        for l in leaves_exprs() {
            out.push(l.clone());
            out.push(Expr::Not(Box::new(l.clone())));
            out.push(Expr::Not(Box::new(Expr::Not(Box::new(l)))));
        }
    } else {
        for i in 1..n {
            let ls = trees(i, memo);
            let rs = trees(n - i, memo);
            // thin the cross product deterministically for n >= 3 (every structure kept, leaves rotated)
            let stride_l = if n >= 3 { (ls.len() / 6).max(1) } else { 1 };
            let stride_r = if n >= 3 { (rs.len() / 6).max(1) } else { 1 };
            for l in ls.iter().step_by(stride_l) {
                for r in rs.iter().step_by(stride_r) {
                    out.push(Expr::And(Box::new(l.clone()), Box::new(r.clone())));
                    out.push(Expr::Or(Box::new(l.clone()), Box::new(r.clone())));
                    out.push(Expr::Not(Box::new(Expr::And(Box::new(l.clone()), Box::new(r.clone())))));
                    out.push(Expr::Not(Box::new(Expr::Or(Box::new(l.clone()), Box::new(r.clone())))));
                }
            }
        }
    }
    memo.insert(n, out.clone());
    out
}

fn case_variants() -> Vec<(&'static str, Box<dyn Fn(&str) -> String>)> {
    vec![
        ("upper", Box::new(|s: &str| s.to_uppercase())),
        ("lower", Box::new(|s: &str| s.to_lowercase())),
        (
            "alternating",
            Box::new(|s: &str| s.chars().enumerate().map(|(i, c)| if i % 2 == 0 { c.to_ascii_lowercase() } else { c.to_ascii_uppercase() }).collect()),
        ),
    ]
}

fn tokenize_ws(s: &str) -> Vec<String> {
    // split on spaces but keep JSON / quoted strings rough-grained enough to mutate structure
    let mut out = Vec::new();
    let mut cur = String::new();
    for c in s.chars() {
        match c {
            ' ' => {
                if !cur.is_empty() {
                    out.push(std::mem::take(&mut cur));
                }
            }
            '(' | ')' | '[' | ']' | '{' | '}' | ',' | ':' => {
                if !cur.is_empty() {
                    out.push(std::mem::take(&mut cur));
                }
                out.push(c.to_string());
            }
            _ => cur.push(c),
        }
    }
    if !cur.is_empty() {
        out.push(cur);
    }
    out
}

fn corpus() -> Vec<String> {
    let mut set = BTreeSet::new();
    if let Ok(t) = std::fs::read_to_string("/repo/tests/integration/scenarios.json") {
        if let Ok(Value::Array(a)) = serde_json::from_str::<Value>(&t) {
            for sc in a {
                if let Some(cmds) = sc.get("input_commands").and_then(|c| c.as_array()) {
                    for c in cmds {
                        if let Some(s) = c.as_str() {
                            if s.len() < 300 {
                                set.insert(s.to_string());
                            }
                        }
                    }
                }
            }
        }
    }
    for s in [
        "QUERY a FOR c0 SINCE \"2025-01-01T00:00:00Z\" USING d RETURN [k, \"s\"] WHERE (k >= 1 OR NOT s = \"x\") AND k IN (1, 2) LIMIT 3",
        "QUERY a COUNT, TOTAL k, AVG k, MIN k, MAX k, COUNT UNIQUE s BY s PER DAY USING d LIMIT 2",
        "QUERY a ORDER BY k DESC LIMIT 2 OFFSET 1",
        "QUERY a FOLLOWED BY b LINKED BY s WHERE a.k = 1 AND b.k = 2 LIMIT 1",
        "QUERY a PRECEDED BY b LINKED BY s USING TIME d",
        "REPLAY a FOR c0 SINCE \"2025-01-01T00:00:00Z\" RETURN [k]",
        "REMEMBER QUERY a WHERE k > 1 AS m1",
        "SHOW m1",
        "PING",
        "FLUSH",
        "DEFINE t2 AS 2 FIELDS { k: \"int\", e: [\"x\", \"y\"], o: \"string | null\", d: \"datetime\" }",
        "STORE a FOR \"ctx with space\" PAYLOAD {\"k\": 1, \"s\": \"TOKEN :x:\"}",
        "CREATE USER u1",
        "CREATE USER u2 WITH KEY \"abc\" WITH ROLES [\"admin\"]",
        "REVOKE KEY u1",
        "LIST USERS",
        "GRANT READ, WRITE ON a, b TO u1",
        "REVOKE READ ON a FROM u1",
        "SHOW PERMISSIONS FOR u1",
        "BATCH [ STORE a FOR c0 PAYLOAD {\"k\":1}; STORE a FOR c0 PAYLOAD {\"k\":2} ]",
        "PLOT TOTAL k OF a BREAKDOWN BY s OVER DAY(d)",
    ] {
        set.insert(s.to_string());
    }
    set.into_iter().collect()
}

pub fn parse1(arg: &str) -> i32 {
    match try_parse(arg) {
        Outcome::Panicked(m) => {
            println!("PANIC {m}");
            3
        }
        _ => 0,
    }
}

/// run one parse in a subprocess with a wall-clock budget
fn parse_isolated(s: &str, budget: Duration) -> Result<(), String> {
    let exe = crate::explore::self_exe();
    let mut child = std::process::Command::new(exe)
        .arg("parse1")
        .arg(s)
        .stdout(std::process::Stdio::piped())
        .stderr(std::process::Stdio::null())
        .spawn()
        .map_err(|e| e.to_string())?;
    let t0 = Instant::now();
    loop {
        match child.try_wait() {
            Ok(Some(st)) => {
                return if st.success() { Ok(()) } else { Err(format!("parser process ended with {st} (panic, abort or stack overflow)")) };
            }
            Ok(None) => {
                if t0.elapsed() > budget {
                    let _ = child.kill();
                    let _ = child.wait();
                    return Err(format!("parser did not terminate within {} ms", budget.as_millis()));
                }
                std::thread::sleep(Duration::from_millis(5));
            }
            Err(e) => return Err(e.to_string()),
        }
    }
}

struct Viol {
    tag: String,
    input: String,
    what: String,
}

pub fn check(tier: &str) -> i32 {
    let t0 = Instant::now();
    let kf = crate::known::load();
    std::panic::set_hook(Box::new(|_| {}));
    let maxlen = if tier == "quick" { 3 } else { 4 };
    let mut viols: Vec<Viol> = Vec::new();
    let mut parsed: BTreeMap<String, (String, Command)> = BTreeMap::new(); // debug form -> (input, cmd)
    let mut evals = 0u64;
    let mut n_rejected = 0u64;
    let mut slow: Vec<(String, u128)> = Vec::new();

    let mut note = |input: &str, viols: &mut Vec<Viol>, parsed: &mut BTreeMap<String, (String, Command)>, n_rejected: &mut u64, slow: &mut Vec<(String, u128)>| {
        let t = Instant::now();
        let out = try_parse(input);
        let el = t.elapsed().as_millis();
        if el > 500 {
            slow.push((input.to_string(), el));
        }
        match out {
            Outcome::Parsed(c) => {
                let key = format!("{c:?}");
                if key.len() < 2000 {
                    parsed.entry(key).or_insert((input.to_string(), c));
                }
            }
            Outcome::Rejected => *n_rejected += 1,
            Outcome::Panicked(m) => viols.push(Viol { tag: classify_panic(&m), input: input.to_string(), what: format!("parser panicked: {m}") }),
        }
    };

    // (a) token strings
    let mut strings: Vec<Vec<&str>> = vec![vec![]];
    let mut frontier: Vec<Vec<&str>> = vec![vec![]];
    for _ in 0..maxlen {
        let mut next = Vec::new();
        for s in &frontier {
            for t in TOKENS {
                let mut s2 = s.clone();
                s2.push(*t);
                next.push(s2);
            }
        }
        strings.extend(next.iter().cloned());
        frontier = next;
    }
    let inputs_a: Vec<String> = PREFIXES.iter().flat_map(|p| strings.iter().map(move |s| format!("{p} {}", s.join(" ")))).collect();
    let res_a: Vec<(Vec<Viol>, BTreeMap<String, (String, Command)>, u64, Vec<(String, u128)>)> = {
        let chunks: Vec<&[String]> = inputs_a.chunks((inputs_a.len() / 64).max(1)).collect();
        par_map(&chunks, threads(), |_, ch| {
            let mut v = Vec::new();
            let mut p = BTreeMap::new();
            let mut r = 0;
            let mut sl = Vec::new();
            for s in ch.iter() {
                note(s, &mut v, &mut p, &mut r, &mut sl);
            }
            (v, p, r, sl)
        })
    };
    evals += inputs_a.len() as u64;
    for (v, p, r, sl) in res_a {
        viols.extend(v);
        for (k, x) in p {
            parsed.entry(k).or_insert(x);
        }
        n_rejected += r;
        slow.extend(sl);
    }
    let a_parsed = parsed.len();

    // (b) print -> parse = id on WHERE trees and clause subsets
    let mut memo = BTreeMap::new();
    let mut tree_count = 0u64;
    let max_leaves = if tier == "quick" { 3 } else { 4 };
    for n in 1..=max_leaves {
        for t in trees(n, &mut memo) {
            for (vname, kw) in case_variants() {
                tree_count += 1;
                let text = format!("{} a {} {}", kw("QUERY"), kw("WHERE"), print_expr(&t, kw.as_ref()));
                evals += 1;
                match try_parse(&text) {
                    Outcome::Parsed(Command::Query { where_clause: Some(w), event_type, .. }) => {
                        if w != t || event_type != "a" {
                            viols.push(Viol {
                                tag: "roundtrip".into(),
                                input: text.clone(),
                                what: format!("({vname}) printed tree {t:?} parsed back as {w:?}"),
                            });
                        }
                    }
                    Outcome::Panicked(m) => viols.push(Viol { tag: classify_panic(&m), input: text.clone(), what: format!("parser panicked: {m}") }),
                    other => viols.push(Viol { tag: "roundtrip".into(), input: text.clone(), what: format!("({vname}) well-formed command not parsed as a query: {other:?}") }),
                }
            }
        }
    }
    // clause subsets, every order-preserving subset of 8 clauses in three keyword cases
    let clause_list: [(&str, &str); 8] = [
        ("FOR", "FOR c0"),
        ("SINCE", "SINCE \"2025-01-01T00:00:00Z\""),
        ("USING", "USING d"),
        ("RETURN", "RETURN [k, s]"),
        ("WHERE", "WHERE k = 1"),
        ("ORDER", "ORDER BY k DESC"),
        ("LIMIT", "LIMIT 5"),
        ("OFFSET", "OFFSET 2"),
    ];
    for mask in 0u32..256 {
        let parts: Vec<&str> = (0..8).filter(|i| mask & (1 << i) != 0).map(|i| clause_list[i].1).collect();
        let upper = format!("QUERY a {}", parts.join(" "));
        let mut asts = Vec::new();
        for (vname, kw) in case_variants() {
            // only keywords change case: apply to whole text except quoted parts and identifiers we control
            let text: String = upper
                .split(' ')
                .map(|w| if ["QUERY", "FOR", "SINCE", "USING", "RETURN", "WHERE", "ORDER", "BY", "DESC", "LIMIT", "OFFSET"].contains(&w) { kw(w) } else { w.to_string() })
                .collect::<Vec<_>>()
                .join(" ");
            evals += 1;
            match try_parse(&text) {
                Outcome::Parsed(c) => asts.push((vname, text, c)),
                Outcome::Panicked(m) => viols.push(Viol { tag: classify_panic(&m), input: text, what: format!("parser panicked: {m}") }),
                Outcome::Rejected => viols.push(Viol { tag: "roundtrip".into(), input: text, what: format!("({vname}) well-formed clause combination rejected") }),
            }
        }
        if asts.len() == 3 {
            if asts[0].2 != asts[1].2 || asts[0].2 != asts[2].2 {
                viols.push(Viol { tag: "case".into(), input: asts[1].1.clone(), what: "keyword case changes the parsed command".into() });
            }
            if let Command::Query { context_id, since, time_field, return_fields, where_clause, order_by, limit, offset, .. } = &asts[0].2 {
                let want = |i: u32| mask & (1 << i) != 0;
                let ok = context_id.is_some() == want(0)
                    && since.is_some() == want(1)
                    && time_field.is_some() == want(2)
                    && return_fields.is_some() == want(3)
                    && where_clause.is_some() == want(4)
                    && order_by.is_some() == want(5)
                    && limit.is_some() == want(6)
                    && offset.is_some() == want(7);
                if !ok {
                    viols.push(Viol { tag: "roundtrip".into(), input: asts[0].1.clone(), what: format!("clause set not preserved: {:?}", asts[0].2) });
                }
            }
            parsed.entry(format!("{:?}", asts[0].2)).or_insert((asts[0].1.clone(), asts[0].2.clone()));
        }
    }
    // precedence spot-forms (also covered by the tree round trip)
    for (text, want) in [
        ("QUERY a WHERE NOT k = 1 AND s = \"x\"", "And(Not(Compare"),
        ("QUERY a WHERE k = 1 OR s = \"x\" AND p = 2", "Or(Compare"),
        ("QUERY a WHERE (k = 1 OR s = \"x\") AND p = 2", "And(Or("),
    ] {
        evals += 1;
        if let Outcome::Parsed(Command::Query { where_clause: Some(w), .. }) = try_parse(text) {
            let d = format!("{w:?}").replace(" ", "").replace("{", "(");
            if !d.starts_with(&want.replace(" ", "")) {
                viols.push(Viol { tag: "precedence".into(), input: text.into(), what: format!("parsed as {w:?}") });
            }
        } else {
            viols.push(Viol { tag: "precedence".into(), input: text.into(), what: "not parsed".into() });
        }
    }

    // (b2) REMEMBER wraps a whole query text and an alias: the wrapped query must parse to what it
    // parses to on its own and the alias must come back unchanged, for query texts holding string
    // literals of every kind (ASCII, accents, characters whose upper-case form has another UTF-8
    // length, ligatures, CJK, emoji) also right in front of the AS keyword
    {
        let specials = ["x", "é", "ß", "ı", "ſ", "ﬁ", "ǰ", "ŉ", "ΐ", "և", "İ", "ısı", "☃", "日本", "\u{1F600}", "a AS b", " as "];
        let shapes = ["QUERY a WHERE s = \"{}\" AND k > 1 LIMIT 100", "QUERY a WHERE k > 1 AND s = \"{}\"", "QUERY a FOR \"{}\" LIMIT 100", "QUERY a WHERE s IN (\"{}\", \"{}\") ORDER BY k DESC LIMIT 7 OFFSET 3"];
        let aliases = ["daily", "m1", "AS1", "as_x"];
        let mut n_remember = 0u64;
        for sp in specials {
            for sh in shapes {
                let q = sh.replace("{}", sp);
                for al in aliases {
                    let text = format!("REMEMBER {q} AS {al}");
                    n_remember += 1;
                    match (try_parse(&q), try_parse(&text)) {
                        (_, Outcome::Panicked(m)) => viols.push(Viol { tag: "panic".into(), input: text.clone(), what: m }),
                        (Outcome::Parsed(inner), Outcome::Parsed(Command::RememberQuery { spec })) => {
                            if spec.name != al || *spec.query != inner {
                                viols.push(Viol { tag: "remember-structure".into(), input: text.clone(), what: format!("alias {:?} (given {al:?}); wrapped query differs from the query parsed alone: {}", spec.name, *spec.query != inner) });
                            }
                        }
                        (Outcome::Parsed(_), other) => viols.push(Viol { tag: "remember-structure".into(), input: text.clone(), what: format!("the query parses alone but the REMEMBER form gives {}", match other { Outcome::Rejected => "a parse error".to_string(), Outcome::Parsed(c) => format!("{c:?}").chars().take(80).collect(), Outcome::Panicked(m) => m }) }),
                        _ => {}
                    }
                }
            }
        }
        evals += n_remember;
    }

    // (b3) clause order: the clauses after the event type are a set - every ordering of every subset that
    // parses must parse to the same command as the documented order (which must parse)
    let mut n_perm = 0u64;
    let max_k_perm = if tier == "quick" { 5 } else { 8 };
    {
        let pools: [[&str; 8]; 4] = [
            ["FOR c0", "SINCE \"2025-01-01T00:00:00Z\"", "USING d", "WHERE k = 1", "COUNT", "ORDER BY count DESC", "LIMIT 5", "OFFSET 2"],
            ["FOR c0", "WHERE k = 1", "TOTAL k, COUNT", "BY s", "ORDER BY s", "LIMIT 5", "PER DAY", "USING d"],
            ["FOR c0", "SINCE \"2025-01-01T00:00:00Z\"", "USING d", "RETURN [k, s]", "WHERE k = 1", "ORDER BY k DESC", "LIMIT 5", "OFFSET 2"],
            ["FOR c0", "SINCE \"2025-01-01T00:00:00Z\"", "USING d", "WHERE k = 1", "COUNT, TOTAL k", "PER DAY", "BY s", "LIMIT 5"],
        ];
        let max_k = max_k_perm;
        fn permute(items: &mut Vec<usize>, k: usize, out: &mut Vec<Vec<usize>>) {
            if k == items.len() {
                out.push(items.clone());
                return;
            }
            for i in k..items.len() {
                items.swap(k, i);
                permute(items, k + 1, out);
                items.swap(k, i);
            }
        }
        for pool in &pools {
            for mask in 1u32..256 {
                let idx: Vec<usize> = (0..8).filter(|i| mask & (1 << i) != 0).collect();
                if idx.len() > max_k || idx.len() < 2 {
                    continue;
                }
                let canon_text = format!("QUERY a {}", idx.iter().map(|i| pool[*i]).collect::<Vec<_>>().join(" "));
                let canon = match try_parse(&canon_text) {
                    Outcome::Parsed(c) => c,
                    Outcome::Panicked(m) => {
                        viols.push(Viol { tag: classify_panic(&m), input: canon_text, what: format!("parser panicked: {m}") });
                        continue;
                    }
                    Outcome::Rejected => {
                        viols.push(Viol { tag: "roundtrip".into(), input: canon_text, what: "clauses in the documented order rejected".into() });
                        continue;
                    }
                };
                let mut perms = Vec::new();
                permute(&mut idx.clone(), 0, &mut perms);
                for pm in perms {
                    let text = format!("QUERY a {}", pm.iter().map(|i| pool[*i]).collect::<Vec<_>>().join(" "));
                    n_perm += 1;
                    match try_parse(&text) {
                        Outcome::Parsed(c) => {
                            if c != canon {
                                viols.push(Viol { tag: "clause-order".into(), input: text, what: format!("parses to another command than {canon_text:?}") });
                            }
                        }
                        Outcome::Panicked(m) => viols.push(Viol { tag: classify_panic(&m), input: text, what: format!("parser panicked: {m}") }),
                        Outcome::Rejected => {}
                    }
                }
            }
        }
        evals += n_perm;
    }

    // (c) corpus mutations
    let corp = corpus();
    let subst = ["(", ")", "\"", "99999999999", "-1", "1.5", "{", "}", "NOT", "AND", ",", "é", "LIMIT"];
    let mut mutants: Vec<String> = Vec::new();
    for c in &corp {
        let toks = tokenize_ws(c);
        mutants.push(c.clone());
        for i in 0..toks.len() {
            let mut d = toks.clone();
            d.remove(i);
            mutants.push(d.join(" "));
            let mut u = toks.clone();
            u.insert(i, toks[i].clone());
            mutants.push(u.join(" "));
            if tier != "quick" || i % 3 == 0 {
                for s in subst {
                    let mut x = toks.clone();
                    x[i] = s.to_string();
                    mutants.push(x.join(" "));
                }
            }
        }
    }
    mutants.sort();
    mutants.dedup();
    let res_c: Vec<(Vec<Viol>, BTreeMap<String, (String, Command)>, u64, Vec<(String, u128)>)> = {
        let chunks: Vec<&[String]> = mutants.chunks((mutants.len() / 64).max(1)).collect();
        par_map(&chunks, threads(), |_, ch| {
            let mut v = Vec::new();
            let mut p = BTreeMap::new();
            let mut r = 0;
            let mut sl = Vec::new();
            for s in ch.iter() {
                note(s, &mut v, &mut p, &mut r, &mut sl);
            }
            (v, p, r, sl)
        })
    };
    evals += mutants.len() as u64;
    for (v, p, r, sl) in res_c {
        viols.extend(v);
        for (k, x) in p {
            parsed.entry(k).or_insert(x);
        }
        n_rejected += r;
        slow.extend(sl);
    }
    for (s, ms) in &slow {
        viols.push(Viol { tag: "slow-parse".into(), input: s.clone(), what: format!("parse took {ms} ms") });
    }

    // (d) nesting sweep, subprocess per input
    let depths: Vec<usize> = if tier == "quick" { vec![1, 2, 4, 8, 10, 12, 16, 24, 32, 64, 20000] } else { (1..=64).chain([128, 256, 1000, 2000, 20000, 100000]).collect() };
    let mut nest_inputs: Vec<(String, usize, String)> = Vec::new();
    for d in &depths {
        nest_inputs.push(("parens".into(), *d, format!("QUERY a WHERE {}k = 1{}", "(".repeat(*d), ")".repeat(*d))));
        nest_inputs.push(("not".into(), *d, format!("QUERY a WHERE {}k = 1", "NOT ".repeat(*d))));
        nest_inputs.push(("open-parens".into(), *d, format!("QUERY a WHERE {}k = 1", "(".repeat(*d))));
        nest_inputs.push(("json".into(), *d, format!("STORE a FOR c PAYLOAD {}1{}", "{\"a\":".repeat(*d), "}".repeat(*d))));
        nest_inputs.push(("and-chain".into(), *d, format!("QUERY a WHERE {}k = 1", "k = 1 AND ".repeat(*d))));
    }
    let nest_res = par_map(&nest_inputs, threads(), |_, (kind, d, s)| (kind.clone(), *d, s.clone(), parse_isolated(s, Duration::from_millis(2000))));
    evals += nest_inputs.len() as u64;
    let mut first_fail: BTreeMap<String, (usize, String, String)> = BTreeMap::new();
    for (kind, d, s, r) in nest_res {
        if let Err(e) = r {
            // a crash (stack overflow) of a >= 1000-deep expression is one class; anything
            // else (non-termination, or a crash at small depth) is classified by construct
            let tag = if d >= 1000 && !e.contains("did not terminate") { "deep-recursion-overflow".to_string() } else { format!("nesting-{kind}-{}", if e.contains("did not terminate") { "timeout" } else { "crash" }) };
            let cur = first_fail.get(&tag).map(|x| x.0).unwrap_or(usize::MAX);
            if d < cur {
                first_fail.insert(tag, (d, s, e));
            }
        }
    }
    for (tag, (d, s, e)) in &first_fail {
        let shown: String = if s.len() > 200 { format!("{}...<{} bytes>", &s[..80], s.len()) } else { s.clone() };
        viols.push(Viol { tag: tag.clone(), input: shown, what: format!("nesting depth {d}: {e}") });
    }

    // (e) dispatch of every distinct parsed command
    let mut to_dispatch: Vec<(String, String)> = Vec::new(); // (kind, input)
    {
        let mut per_kind: BTreeMap<String, usize> = BTreeMap::new();
        let cap = if tier == "quick" { 150 } else { 1500 };
        for (k, (input, _c)) in &parsed {
            let kind = k.split(|c: char| !c.is_alphanumeric()).next().unwrap_or("").to_string();
            let n = per_kind.entry(kind.clone()).or_insert(0);
            if *n < cap {
                *n += 1;
                to_dispatch.push((kind, input.clone()));
            }
        }
    }
    let scratch = Scratch::new("c17");
    let batches: Vec<Vec<(String, String)>> = to_dispatch.chunks(100).map(|c| c.to_vec()).collect();
    let disp = par_map(&batches, threads(), |i, batch| {
        let mut ops = vec![
            Op::Cmd { text: "DEFINE a FIELDS { k: \"int\", s: \"string\", d: \"datetime\" }".into() },
            Op::Cmd { text: "DEFINE b FIELDS { k: \"int\", s: \"string\", d: \"datetime\" }".into() },
            Op::Cmd { text: "STORE a FOR c0 PAYLOAD {\"k\":1,\"s\":\"x\",\"d\":1700000000}".into() },
            Op::Cmd { text: "STORE b FOR c0 PAYLOAD {\"k\":2,\"s\":\"x\",\"d\":1700000001}".into() },
        ];
        for (_, input) in batch {
            ops.push(Op::CmdIsolated { text: input.clone() });
        }
        let job = Job {
            root: scratch.dir.join(format!("d{i}/db")).to_string_lossy().into_owned(),
            cfg: SysConfig::default(),
            entropy: 5,
            clock_ms: BASE_CLOCK_MS,
            clock_step_ms: 1000,
            ops,
            ..Default::default()
        };
        crate::explore::run_child(&job, &scratch.dir.join(format!("d{i}/job.json")))
    });
    let mut dispatched = 0u64;
    for (bi, r) in disp.iter().enumerate() {
        match r {
            Err(e) => {
                eprintln!("MACHINERY: dispatch batch failed: {e}");
                return 2;
            }
            Ok(res) => {
                if let Some(e) = &res.error {
                    viols.push(Viol { tag: "dispatch-crash".into(), input: format!("batch {bi}"), what: e.clone() });
                    continue;
                }
                for (j, (kind, input)) in batches[bi].iter().enumerate() {
                    dispatched += 1;
                    let st = &res.steps[4 + j];
                    if st.blocked {
                        viols.push(Viol { tag: format!("dispatch-blocked-{kind}"), input: input.clone(), what: "no response within the virtual-time horizon".into() });
                    } else if !st.note.is_empty() {
                        let tag = if kind == "Batch" { "dispatch-batch-unreachable".to_string() } else { format!("dispatch-panic-{kind}") };
                        viols.push(Viol { tag, input: input.clone(), what: st.note.clone() });
                    } else if st.replies.first().map_or(true, |r| r.failure.is_some()) {
                        viols.push(Viol {
                            tag: format!("dispatch-noreply-{kind}"),
                            input: input.clone(),
                            what: format!("no decodable response: {:?}", st.replies.first().and_then(|r| r.failure.clone())),
                        });
                    }
                }
            }
        }
    }
    evals += dispatched;
    let _ = std::panic::take_hook();

    // ---- verdicts
    let mut by_tag: BTreeMap<String, Vec<&Viol>> = BTreeMap::new();
    for v in &viols {
        by_tag.entry(v.tag.clone()).or_default().push(v);
    }
    let mut n_viol = 0;
    for (tag, vs) in &by_tag {
        let mut vs = vs.clone();
        vs.sort_by_key(|v| v.input.len());
        if kf.is_known("C17", tag) {
            println!("KNOWN-FINDING: property=C17 {tag}: {} [{} inputs, shortest: {:?}]", kf.describe("C17", tag), vs.len(), vs[0].input);
        } else {
            n_viol += 1;
            let path = write_replay("C17", &json!({"property": "C17", "class": tag, "input": vs[0].input, "what": vs[0].what, "count": vs.len(), "how": "verif parse1 '<input>' (parser) or dispatch the command against a fresh instance"}));
            println!("VIOLATION property=C17 replay={path}");
            eprintln!("  [{tag}] {:?}: {} ({} inputs)", vs[0].input, vs[0].what, vs.len());
        }
    }
    write_evidence(&Evidence {
        property_id: "C17".into(),
        tier: tier.into(),
        seed: seed(),
        level: "exploration".into(),
        coverage: json!({
            "evaluations": evals,
            "distinct_nontrivial": parsed.len(),
            "rule": format!("(a) every string of <= {maxlen} tokens from a {}-token alphabet after each of {} command prefixes; (b) every WHERE tree with <= {max_leaves} leaves (deterministically thinned above 2) printed with minimal parentheses in 3 keyword cases and parsed back, all 256 clause subsets x 3 cases, every ordering of every clause subset of size 2..{max_k_perm} from four 8-clause pools (selection clauses, aggregate clauses, a bare COUNT next to ORDER BY / LIMIT / OFFSET, an aggregate list ending in COUNT next to BY / ORDER BY / PER) against the documented order; (c) every single-token deletion, duplication and substitution of a {}-command corpus (tests/integration/scenarios.json + additions); (d) nesting depths {:?} of parentheses, NOT, unbalanced parentheses and JSON, one subprocess each with a 2 s budget; (e) every distinct parsed command (capped per command kind) dispatched against a live one-shard instance. distinct_nontrivial = distinct syntax trees the parser returned", TOKENS.len(), PREFIXES.len(), corp.len(), depths),
            "samples": sample_json(&parsed.values().map(|x| x.0.clone()).collect::<Vec<_>>(), 8),
            "token_strings": inputs_a.len(),
            "parsed_from_token_strings": a_parsed,
            "where_trees_roundtripped": tree_count,
            "clause_orderings_checked": n_perm,
            "corpus_mutants": mutants.len(),
            "rejected": n_rejected,
            "nesting_inputs": nest_inputs.len(),
            "dispatched": dispatched,
            "exhaustive": true,
        }),
        assumptions: vec![
            "in-process parses run under catch_unwind; non-unwinding failures (stack overflow, non-termination) are only detected in the subprocess sweep (d)".into(),
            "dispatch runs with authentication off and a two-type schema".into(),
        ],
        wall_s: t0.elapsed().as_secs_f64(),
        violations: n_viol,
    });
    if n_viol == 0 { 0 } else { 1 }
}

fn classify_panic(m: &str) -> String {
    if m.contains("ParseIntError") || m.contains("PosOverflow") || m.contains("NegOverflow") || m.contains("Option::unwrap()") {
        "panic-numeric-literal".into()
    } else {
        format!("panic-{}", m.chars().filter(|c| c.is_alphanumeric()).take(24).collect::<String>())
    }
}
