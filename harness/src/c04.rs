//! C04 — REPLAY returns a context's events in the order they were appended.
//! Per-context append sequences x every placement of <= j layout ops
//! (FLUSH / COMPACT / RESTART) between the appends x configurations; the exact
//! returned sequence is compared with the append order.
use crate::golden::Failing;
use crate::job::{Op, SnapMode};
use crate::lab::*;
use crate::sys::SysConfig;
use serde_json::json;
use std::collections::BTreeSet;

#[derive(Debug, Clone, Copy, PartialEq, Eq, PartialOrd, Ord)]
enum L {
    Flush,
    Compact,
    Restart,
}

/// append patterns: (type, context) per STORE
fn patterns() -> Vec<(&'static str, Vec<(&'static str, &'static str)>)> {
    vec![
        ("abaXba", vec![("a", "c0"), ("b", "c0"), ("a", "c0"), ("a", "c1"), ("b", "c0"), ("a", "c0")]),
        ("aaXaa", vec![("a", "c0"), ("a", "c0"), ("a", "c1"), ("a", "c0"), ("a", "c0")]),
        ("abYab", vec![("a", "c0"), ("b", "c0"), ("b", "c1"), ("a", "c0"), ("b", "c0")]),
        // long buckets: one context holds more events of two interleaved types than any small-slice
        // shortcut of a sort or merge covers (run only with the fixed placements of `long_placements`)
        ("long25", (0..25).map(|i| if i == 12 { ("a", "c1") } else if i % 2 == 0 { ("a", "c0") } else { ("b", "c0") }).collect()),
        ("long41", (0..41).map(|i| if i % 10 == 9 { ("b", "c1") } else if i % 3 == 0 { ("b", "c0") } else { ("a", "c0") }).collect()),
        // many segments: segment ids cross a power of ten (00009 -> 00010), run with `many_placements`
        ("segs36", (0..36).map(|i| if i % 6 == 5 { ("b", "c0") } else { ("a", "c0") }).collect()),
    ]
}

const N_SHORT: usize = 3;
const N_LONG: usize = 2;

/// a FLUSH after every third STORE (12 segments), plain and followed by a restart
fn many_placements(n: usize) -> Vec<Vec<(usize, L)>> {
    let every3: Vec<(usize, L)> = (0..n).filter(|i| i % 3 == 2).map(|i| (i, L::Flush)).collect();
    let mut with_restart = every3.clone();
    let last = with_restart.len() - 1;
    with_restart[last] = (n - 1, L::Restart);
    // the restart replaces the last flush: shutdown flushes the remaining rows
    vec![every3, with_restart]
}

/// layouts for the long patterns: memory only, one segment, two segments, two segments compacted,
/// one segment and a restart
fn long_placements(n: usize) -> Vec<Vec<(usize, L)>> {
    let (mid, last) = (n / 2, n - 1);
    vec![
        vec![],
        vec![(last, L::Flush)],
        vec![(mid, L::Flush), (last, L::Flush)],
        vec![(mid, L::Flush), (last - 1, L::Flush), (last, L::Compact)],
        vec![(last - 1, L::Flush), (last, L::Restart)],
    ]
}

/// all placements of <= j layout ops into the n slots after each STORE (at most one op per slot)
fn placements(n: usize, j: usize) -> Vec<Vec<(usize, L)>> {
    let mut out: Vec<Vec<(usize, L)>> = vec![vec![]];
    fn rec(start: usize, n: usize, left: usize, cur: &mut Vec<(usize, L)>, out: &mut Vec<Vec<(usize, L)>>) {
        if left == 0 {
            return;
        }
        for slot in start..n {
            for l in [L::Flush, L::Compact, L::Restart] {
                cur.push((slot, l));
                out.push(cur.clone());
                rec(slot + 1, n, left - 1, cur, out);
                cur.pop();
            }
        }
    }
    rec(0, n, j, &mut Vec::new(), &mut out);
    out
}

fn queries(since: i64) -> Vec<String> {
    vec![
        "REPLAY FOR c0".into(),
        "REPLAY a FOR c0".into(),
        "REPLAY b FOR c0".into(),
        "REPLAY FOR c1".into(),
        "REPLAY FOR c0 RETURN [k]".into(),
        format!("REPLAY FOR c0 SINCE \"{since}\""),
        format!("REPLAY a FOR c0 SINCE \"{since}\""),
    ]
}

struct Case {
    cfg: SysConfig,
    pat: usize,
    place: Vec<(usize, L)>,
}

fn run_case(dir: &std::path::Path, c: &Case) -> Result<Vec<(String, Vec<i64>, Vec<i64>)>, String> {
    let (_, pat) = &patterns()[c.pat];
    let mut lives: Vec<Vec<Op>> = vec![vec![Op::Cmd { text: define_cmd("a") }, Op::Cmd { text: define_cmd("b") }]];
    // (k, type, ctx, life, op index)
    let mut stored: Vec<(i64, &str, &str, usize, usize)> = Vec::new();
    for (i, (t, cx)) in pat.iter().enumerate() {
        let li = lives.len() - 1;
        let e = Ev { k: i as i64, typ: t.to_string(), ctx: cx.to_string() };
        stored.push((i as i64, t, cx, li, lives[li].len()));
        lives[li].push(Op::Cmd { text: e.store_cmd() });
        for (slot, l) in &c.place {
            if *slot == i {
                match l {
                    L::Flush => lives[li].push(Op::FlushSeq),
                    L::Compact => lives[li].push(Op::CompactAll),
                    L::Restart => {
                        lives[li].push(Op::ShutdownSeq);
                        lives.push(vec![]);
                    }
                }
            }
        }
    }
    // mirror of run_lifetimes' clock to place SINCE at the third c0 event
    let mut starts = Vec::new();
    let mut clock = BASE_CLOCK_MS;
    for l in &lives {
        starts.push(clock);
        clock += 1000 * (l.len() as i64 + 5);
    }
    let ts_of = |life: usize, op: usize| (starts[life] + 1000 * (op as i64 + 1)) / 1000;
    let c0: Vec<&(i64, &str, &str, usize, usize)> = stored.iter().filter(|s| s.2 == "c0").collect();
    let since = ts_of(c0[2].3, c0[2].4);
    let qs = queries(since);
    let li = lives.len() - 1;
    lives[li].push(Op::Observe { queries: qs.clone() });
    let specs: Vec<LifeSpec> = lives.into_iter().map(|ops| LifeSpec { ops, snap: SnapMode::Off, fsmon: false }).collect();
    let res = run_lifetimes(dir, &c.cfg, 13, &specs, false)?;
    for r in &res {
        if let Some(e) = &r.error {
            return Err(format!("engine error: {e}"));
        }
    }
    let last = res.last().unwrap().steps.last().unwrap();
    let mut out = Vec::new();
    for (qi, q) in qs.iter().enumerate() {
        let rep = &last.replies[qi];
        let got: Vec<i64> = rep.rows.iter().filter_map(|r| r.get("k").and_then(|v| v.as_i64())).collect();
        let ctx = if q.contains("FOR c1") { "c1" } else { "c0" };
        let typ = if q.starts_with("REPLAY a") {
            Some("a")
        } else if q.starts_with("REPLAY b") {
            Some("b")
        } else {
            None
        };
        let want: Vec<i64> = stored
            .iter()
            .filter(|s| s.2 == ctx && typ.map_or(true, |t| s.1 == t) && (!q.contains("SINCE") || ts_of(s.3, s.4) >= since))
            .map(|s| s.0)
            .collect();
        if rep.failure.is_some() || (rep.status != 200 && !rep.message.to_lowercase().contains("no matching")) {
            out.push((format!("{q} [status {}]", rep.status), vec![-1], want));
        } else {
            out.push((q.clone(), got, want));
        }
    }
    let _ = std::fs::remove_dir_all(dir);
    Ok(out)
}

pub fn check(tier: &str) -> i32 {
    let t0 = std::time::Instant::now();
    let scratch = Scratch::new("c04");
    let cfgs: Vec<SysConfig> = if tier == "quick" {
        vec![SysConfig { fill_factor: 8, event_per_zone: 1, ..Default::default() }, SysConfig { fill_factor: 4, event_per_zone: 2, segments_per_merge: 3, ..Default::default() }]
    } else {
        vec![
            SysConfig { fill_factor: 8, event_per_zone: 1, ..Default::default() },
            SysConfig { fill_factor: 4, event_per_zone: 2, segments_per_merge: 3, ..Default::default() },
            SysConfig { fill_factor: 2, event_per_zone: 1, ..Default::default() },
            SysConfig { fill_factor: 8, event_per_zone: 2, shards: 2, ..Default::default() },
        ]
    };
    let j = if tier == "quick" { 2 } else { 3 };
    let mut cases = Vec::new();
    for (ci, cfg) in cfgs.iter().enumerate() {
        for (pi, (_, pat)) in patterns().iter().enumerate().take(N_SHORT) {
            if tier == "quick" && pi == 2 && ci == 1 {
                continue;
            }
            for pl in placements(pat.len(), j) {
                cases.push(Case { cfg: cfg.clone(), pat: pi, place: pl });
            }
        }
    }
    // long buckets, with memtables large enough to hold them
    for cfg in [SysConfig { fill_factor: 16, event_per_zone: 4, ..Default::default() }, SysConfig { fill_factor: 64, event_per_zone: 1, segments_per_merge: 2, ..Default::default() }] {
        for (pi, (_, pat)) in patterns().iter().enumerate().skip(N_SHORT).take(N_LONG) {
            for pl in long_placements(pat.len()) {
                cases.push(Case { cfg: cfg.clone(), pat: pi, place: pl });
            }
        }
        for (pi, (_, pat)) in patterns().iter().enumerate().skip(N_SHORT + N_LONG) {
            for pl in many_placements(pat.len()) {
                cases.push(Case { cfg: cfg.clone(), pat: pi, place: pl });
            }
        }
    }
    let res = par_map(&cases, threads(), |i, c| run_case(&scratch.dir.join(format!("h{i}")), c));
    // canary
    let again = par_map(&cases[..8.min(cases.len())], threads(), |i, c| run_case(&scratch.dir.join(format!("k{i}")), c));
    for (i, r) in again.iter().enumerate() {
        if let (Ok(a), Ok(b)) = (r, &res[i]) {
            if a != b {
                eprintln!("MACHINERY: nondeterminism in case {i}");
                return 2;
            }
        }
    }
    let mut failing = Vec::new();
    let mut evals = 0u64;
    let mut nontrivial = 0u64;
    let mut outcomes: BTreeSet<String> = BTreeSet::new();
    for (i, r) in res.iter().enumerate() {
        let c = &cases[i];
        match r {
            Err(e) => {
                eprintln!("MACHINERY: {e}");
                return 2;
            }
            Ok(v) => {
                for (q, got, want) in v {
                    evals += 1;
                    if want.len() > 1 {
                        nontrivial += 1;
                    }
                    outcomes.insert(format!("{got:?}"));
                    if got != want {
                        let mut gs = got.clone();
                        gs.sort();
                        let mut ws = want.clone();
                        ws.sort();
                        let kind = if gs == ws { "order" } else { "membership" };
                        let wild = if q.starts_with("REPLAY FOR") { "wildcard REPLAY" } else { "typed REPLAY" };
                        failing.push(Failing {
                            key: format!("cfg({},{},{},{})|{}|{:?}|{q}", c.cfg.shards, c.cfg.fill_factor, c.cfg.event_per_zone, c.cfg.segments_per_merge, patterns()[c.pat].0, c.place),
                            digest: crate::golden::digest(&format!("{got:?}")),
                            class: format!("{wild}: {kind} differs"),
                            detail: json!({"query": q, "returned_k_sequence": got, "append_order": want, "pattern": patterns()[c.pat].0, "layout_ops_after_store_index": format!("{:?}", c.place)}),
                        });
                    }
                }
            }
        }
    }
    let verdict = crate::golden::judge("C04", tier, &failing);
    let nv = crate::golden::report("C04", &verdict, &|_| "REPLAY does not return the context's events in append order (exact cases in known/C04.*.json)".to_string(), 6);
    write_evidence(&Evidence {
        property_id: "C04".into(),
        tier: tier.into(),
        seed: seed(),
        level: "model_checking".into(),
        coverage: json!({
            "states": cases.len(),
            "transitions": evals,
            "traces_validated_against_impl": cases.len(),
            "samples": cases.iter().step_by((cases.len() / 6).max(1)).take(6).map(|c| json!({"pattern": patterns()[c.pat].0, "layout_ops": format!("{:?}", c.place), "config": [c.cfg.shards, c.cfg.fill_factor, c.cfg.event_per_zone, c.cfg.segments_per_merge]})).collect::<Vec<_>>(),
            "histories": cases.len(),
            "replay_commands_judged": evals,
            "with_more_than_one_expected_event": nontrivial,
            "distinct_returned_sequences": outcomes.len(),
            "failing_cases": failing.len(),
            "max_layout_ops": j,
            "exhaustive": true,
            "explanation": "3 append patterns (two types in one context, interleaved with a second context) x every placement of <= j ops from {FLUSH, COMPACT, RESTART} in the slots after each STORE x configurations (zone size 1/2, fan-in 2/3, 1-2 shards): the context then spans active memory, several L0 segments, compacted segments and restarts; REPLAY variants: wildcard, typed, RETURN, SINCE; oracle: the exact k sequence",
        }),
        assumptions: vec!["the concurrent in-memory and on-disk result streams are scheduled by tokio's deterministic order on one thread (fan-in gates not explored)".into()],
        wall_s: t0.elapsed().as_secs_f64(),
        violations: nv,
    });
    if nv == 0 { 0 } else { 1 }
}
