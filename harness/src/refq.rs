//! Reference query semantics, written from the property statements and the
//! command documentation (not from the engine): typed comparison per declared
//! field type, three-valued logic made explicit so that predicates whose truth
//! depends on the null convention can be excluded from the RefDb oracle.
use serde::{Deserialize, Serialize};
use serde_json::{json, Map, Value};
use std::cmp::Ordering;

#[derive(Debug, Clone, PartialEq, Serialize, Deserialize)]
pub enum FType {
    Int,
    U64,
    Float,
    Str,
    Bool,
    Enum(Vec<String>),
    OptInt,
    OptStr,
    Datetime,
    Date,
}

impl FType {
    pub fn define_str(&self) -> String {
        match self {
            FType::Int => "\"int\"".into(),
            FType::U64 => "\"u64\"".into(),
            FType::Float => "\"float\"".into(),
            FType::Str => "\"string\"".into(),
            FType::Bool => "\"bool\"".into(),
            FType::Enum(v) => format!("[{}]", v.iter().map(|x| format!("\"{x}\"")).collect::<Vec<_>>().join(", ")),
            FType::OptInt => "\"int | null\"".into(),
            FType::OptStr => "\"string | null\"".into(),
            FType::Datetime => "\"datetime\"".into(),
            FType::Date => "\"date\"".into(),
        }
    }
    pub fn numeric(&self) -> bool {
        matches!(self, FType::Int | FType::U64 | FType::Float | FType::OptInt | FType::Datetime | FType::Date)
    }
}

#[derive(Debug, Clone, Serialize, Deserialize)]
pub struct Schema {
    pub name: String,
    pub fields: Vec<(String, FType)>,
}

impl Schema {
    pub fn define_cmd(&self) -> String {
        format!(
            "DEFINE {} FIELDS {{ {} }}",
            self.name,
            self.fields.iter().map(|(n, t)| format!("{n}: {}", t.define_str())).collect::<Vec<_>>().join(", ")
        )
    }
    pub fn ftype(&self, f: &str) -> Option<&FType> {
        self.fields.iter().find(|(n, _)| n == f).map(|(_, t)| t)
    }
}

#[derive(Debug, Clone, Serialize, Deserialize, PartialEq)]
pub struct Row {
    /// unique key, also stored as payload field `k`
    pub k: i64,
    pub ctx: String,
    /// payload as sent (time fields in the spelling sent)
    pub payload: Map<String, Value>,
    /// logical STORE time (epoch seconds), filled in by the driver
    pub ts: i64,
}

impl Row {
    pub fn store_cmd(&self, typ: &str) -> String {
        let ctx = if self.ctx.chars().all(|c| c.is_ascii_alphanumeric() || c == '-' || c == '_') && !self.ctx.is_empty() {
            self.ctx.clone()
        } else {
            format!("\"{}\"", self.ctx)
        };
        format!("STORE {typ} FOR {ctx} PAYLOAD {}", Value::Object(self.payload.clone()))
    }
}

#[derive(Debug, Clone, Copy, PartialEq, Eq, Serialize, Deserialize, Hash, PartialOrd, Ord)]
pub enum Op {
    Eq,
    Neq,
    Lt,
    Lte,
    Gt,
    Gte,
}
pub const OPS: [Op; 6] = [Op::Eq, Op::Neq, Op::Lt, Op::Lte, Op::Gt, Op::Gte];

impl Op {
    pub fn s(&self) -> &'static str {
        match self {
            Op::Eq => "=",
            Op::Neq => "!=",
            Op::Lt => "<",
            Op::Lte => "<=",
            Op::Gt => ">",
            Op::Gte => ">=",
        }
    }
    fn holds(&self, o: Ordering) -> bool {
        match self {
            Op::Eq => o == Ordering::Equal,
            Op::Neq => o != Ordering::Equal,
            Op::Lt => o == Ordering::Less,
            Op::Lte => o != Ordering::Greater,
            Op::Gt => o == Ordering::Greater,
            Op::Gte => o != Ordering::Less,
        }
    }
}

#[derive(Debug, Clone, PartialEq, Serialize, Deserialize)]
pub enum Lit {
    Int(i64),
    U(u64),
    Float(f64),
    Str(String),
    /// bare word (true / false / enum variant written without quotes)
    Word(String),
}

impl Lit {
    pub fn text(&self) -> String {
        match self {
            Lit::Int(i) => i.to_string(),
            Lit::U(u) => u.to_string(),
            Lit::Float(f) => {
                let s = format!("{f}");
                if s.contains('.') { s } else { format!("{s}.0") }
            }
            Lit::Str(s) => format!("\"{s}\""),
            Lit::Word(w) => w.clone(),
        }
    }
}

#[derive(Debug, Clone, PartialEq, Serialize, Deserialize)]
pub enum Pred {
    Cmp(String, Op, Lit),
    In(String, Vec<Lit>),
    And(Box<Pred>, Box<Pred>),
    Or(Box<Pred>, Box<Pred>),
    Not(Box<Pred>),
}

impl Pred {
    pub fn text(&self) -> String {
        fn prec(p: &Pred) -> u8 {
            match p {
                Pred::Or(..) => 1,
                Pred::And(..) => 2,
                Pred::Not(..) => 3,
                _ => 4,
            }
        }
        fn wrap(c: &Pred, min: u8) -> String {
            if prec(c) < min { format!("({})", c.text()) } else { c.text() }
        }
        match self {
            Pred::Cmp(f, op, l) => format!("{f} {} {}", op.s(), l.text()),
            Pred::In(f, ls) => format!("{f} IN ({})", ls.iter().map(|l| l.text()).collect::<Vec<_>>().join(", ")),
            Pred::Not(x) => format!("NOT {}", wrap(x, 3)),
            Pred::And(a, b) => format!("{} AND {}", wrap(a, 3), wrap(b, 2)),
            Pred::Or(a, b) => format!("{} OR {}", wrap(a, 2), wrap(b, 1)),
        }
    }
    pub fn leaves(&self) -> Vec<&Pred> {
        match self {
            Pred::And(a, b) | Pred::Or(a, b) => {
                let mut v = a.leaves();
                v.extend(b.leaves());
                v
            }
            Pred::Not(x) => x.leaves(),
            l => vec![l],
        }
    }
    pub fn has_not(&self) -> bool {
        match self {
            Pred::Not(_) => true,
            Pred::And(a, b) | Pred::Or(a, b) => a.has_not() || b.has_not(),
            _ => false,
        }
    }
}

/// three-valued truth
#[derive(Debug, Clone, Copy, PartialEq, Eq)]
pub enum T3 {
    T,
    F,
    U,
}

/// Epoch seconds of a time value in any accepted spelling (independent integer arithmetic).
pub fn instant_of(v: &Value, date_only: bool) -> Option<i64> {
    match v {
        Value::Number(n) => {
            if let Some(i) = n.as_i64() {
                Some(epoch_int_to_seconds(i))
            } else if let Some(u) = n.as_u64() {
                Some(epoch_int_to_seconds(u.min(i64::MAX as u64) as i64))
            } else {
                n.as_f64().map(|f| f.floor() as i64)
            }
        }
        Value::String(s) => {
            if let Ok(i) = s.parse::<i64>() {
                return Some(epoch_int_to_seconds(i));
            }
            parse_iso(s, date_only)
        }
        _ => None,
    }
}

/// magnitude heuristic of the documentation: s / ms / us / ns by digit count
pub fn epoch_int_to_seconds(i: i64) -> i64 {
    let a = i.unsigned_abs();
    let div: i64 = if a < 100_000_000_000 {
        1
    } else if a < 100_000_000_000_000 {
        1_000
    } else if a < 100_000_000_000_000_000 {
        1_000_000
    } else {
        1_000_000_000
    };
    i.div_euclid(div)
}

/// days from civil (Howard Hinnant), proleptic Gregorian
fn days_from_civil(y: i64, m: i64, d: i64) -> i64 {
    let y = if m <= 2 { y - 1 } else { y };
    let era = if y >= 0 { y } else { y - 399 } / 400;
    let yoe = y - era * 400;
    let mp = (m + 9) % 12;
    let doy = (153 * mp + 2) / 5 + d - 1;
    let doe = yoe * 365 + yoe / 4 - yoe / 100 + doy;
    era * 146097 + doe - 719468
}

pub fn parse_iso(s: &str, _date_only: bool) -> Option<i64> {
    // YYYY-MM-DD[THH:MM:SS[.fff][Z|+HH:MM|-HH:MM]]
    let b = s.as_bytes();
    if b.len() < 10 || b[4] != b'-' || b[7] != b'-' {
        return None;
    }
    let y: i64 = s.get(0..4)?.parse().ok()?;
    let mo: i64 = s.get(5..7)?.parse().ok()?;
    let d: i64 = s.get(8..10)?.parse().ok()?;
    let mut secs = days_from_civil(y, mo, d) * 86400;
    if b.len() == 10 {
        return Some(secs);
    }
    if b[10] != b'T' && b[10] != b' ' {
        return None;
    }
    let h: i64 = s.get(11..13)?.parse().ok()?;
    let mi: i64 = s.get(14..16)?.parse().ok()?;
    let se: i64 = s.get(17..19)?.parse().ok()?;
    secs += h * 3600 + mi * 60 + se;
    let mut rest = s.get(19..)?;
    if let Some(r) = rest.strip_prefix('.') {
        let n = r.chars().take_while(|c| c.is_ascii_digit()).count();
        rest = &r[n..];
    }
    if rest.is_empty() || rest == "Z" || rest == "z" {
        return Some(secs);
    }
    let sign = match rest.as_bytes()[0] {
        b'+' => 1,
        b'-' => -1,
        _ => return None,
    };
    let oh: i64 = rest.get(1..3)?.parse().ok()?;
    let om: i64 = rest.get(4..6)?.parse().ok()?;
    Some(secs - sign * (oh * 3600 + om * 60))
}

fn cmp_num(a: f64, b: f64) -> Option<Ordering> {
    a.partial_cmp(&b)
}

/// exact comparison of two JSON numbers where both are integers (avoids f64 rounding near 2^63)
fn cmp_json_numbers(a: &Value, b: &Lit) -> Option<Ordering> {
    let ai: Option<i128> = a.as_i64().map(|x| x as i128).or_else(|| a.as_u64().map(|x| x as i128));
    let bi: Option<i128> = match b {
        Lit::Int(i) => Some(*i as i128),
        Lit::U(u) => Some(*u as i128),
        _ => None,
    };
    if let (Some(x), Some(y)) = (ai, bi) {
        return Some(x.cmp(&y));
    }
    let af = a.as_f64()?;
    let bf = match b {
        Lit::Int(i) => *i as f64,
        Lit::U(u) => *u as f64,
        Lit::Float(f) => *f,
        _ => return None,
    };
    cmp_num(af, bf)
}

/// Result: Some(T3) when the comparison is well-typed; None when the leaf is ill-typed for the field
pub fn eval_leaf(schema: &Schema, row: &Row, field: &str, op: Op, lit: &Lit) -> Option<T3> {
    // core fields
    if field == "context_id" {
        if let Lit::Str(s) | Lit::Word(s) = lit {
            return Some(if op.holds(row.ctx.as_str().cmp(s.as_str())) { T3::T } else { T3::F });
        }
        return None;
    }
    if field == "timestamp" {
        let l = match lit {
            Lit::Int(i) => *i,
            Lit::Str(s) => instant_of(&json!(s), false)?,
            _ => return None,
        };
        return Some(if op.holds(row.ts.cmp(&l)) { T3::T } else { T3::F });
    }
    let ft = schema.ftype(field)?;
    let v = row.payload.get(field).cloned().unwrap_or(Value::Null);
    if v.is_null() {
        return match ft {
            FType::OptInt | FType::OptStr => Some(T3::U),
            _ => None,
        };
    }
    let ord: Option<Ordering> = match ft {
        FType::Int | FType::U64 | FType::Float | FType::OptInt => match lit {
            Lit::Int(_) | Lit::U(_) | Lit::Float(_) => cmp_json_numbers(&v, lit),
            _ => return None,
        },
        FType::Str | FType::OptStr => match lit {
            Lit::Str(s) => Some(v.as_str()?.cmp(s.as_str())),
            Lit::Word(s) => Some(v.as_str()?.cmp(s.as_str())),
            _ => return None,
        },
        FType::Bool => {
            let want = match lit {
                Lit::Word(w) | Lit::Str(w) if w == "true" => true,
                Lit::Word(w) | Lit::Str(w) if w == "false" => false,
                _ => return None,
            };
            if !matches!(op, Op::Eq | Op::Neq) {
                return None;
            }
            Some(v.as_bool()?.cmp(&want))
        }
        FType::Enum(_) => {
            let s = match lit {
                Lit::Str(s) | Lit::Word(s) => s,
                _ => return None,
            };
            if !matches!(op, Op::Eq | Op::Neq) {
                return None;
            }
            // an unknown variant equals nothing
            Some(if v.as_str()? == s { Ordering::Equal } else { Ordering::Less })
        }
        FType::Datetime | FType::Date => {
            let stored = instant_of(&v, matches!(ft, FType::Date))?;
            let l = match lit {
                Lit::Int(i) => *i,
                Lit::Str(s) => parse_iso(s, false).or_else(|| s.parse::<i64>().ok())?,
                _ => return None,
            };
            Some(stored.cmp(&l))
        }
    };
    Some(if op.holds(ord?) { T3::T } else { T3::F })
}

/// (three-valued result, two-valued result with "comparison with null is false"); None = ill-typed
pub fn eval(schema: &Schema, row: &Row, p: &Pred) -> Option<(T3, bool)> {
    match p {
        Pred::Cmp(f, op, l) => {
            let t = eval_leaf(schema, row, f, *op, l)?;
            Some((t, t == T3::T))
        }
        Pred::In(f, ls) => {
            let mut any_u = false;
            for l in ls {
                match eval_leaf(schema, row, f, Op::Eq, l)? {
                    T3::T => return Some((T3::T, true)),
                    T3::U => any_u = true,
                    T3::F => {}
                }
            }
            Some((if any_u { T3::U } else { T3::F }, false))
        }
        Pred::Not(x) => {
            let (t, b) = eval(schema, row, x)?;
            Some((
                match t {
                    T3::T => T3::F,
                    T3::F => T3::T,
                    T3::U => T3::U,
                },
                !b,
            ))
        }
        Pred::And(a, b) => {
            let (ta, ba) = eval(schema, row, a)?;
            let (tb, bb) = eval(schema, row, b)?;
            let t = if ta == T3::F || tb == T3::F {
                T3::F
            } else if ta == T3::T && tb == T3::T {
                T3::T
            } else {
                T3::U
            };
            Some((t, ba && bb))
        }
        Pred::Or(a, b) => {
            let (ta, ba) = eval(schema, row, a)?;
            let (tb, bb) = eval(schema, row, b)?;
            let t = if ta == T3::T || tb == T3::T {
                T3::T
            } else if ta == T3::F && tb == T3::F {
                T3::F
            } else {
                T3::U
            };
            Some((t, ba || bb))
        }
    }
}

/// Keys selected by the predicate, or None when some row makes the answer depend
/// on the null convention / the predicate is ill-typed for the schema.
pub fn select(schema: &Schema, rows: &[Row], p: Option<&Pred>, ctx: Option<&str>, since: Option<i64>, since_field: Option<&str>) -> Option<Vec<i64>> {
    let mut out = Vec::new();
    for r in rows {
        if let Some(c) = ctx {
            if r.ctx != c {
                continue;
            }
        }
        if let Some(s) = since {
            let t = match since_field {
                None | Some("timestamp") => r.ts,
                Some(f) => {
                    let v = r.payload.get(f)?;
                    instant_of(v, false)?
                }
            };
            if t < s {
                continue;
            }
        }
        match p {
            None => out.push(r.k),
            Some(p) => {
                let (t3, t2) = eval(schema, r, p)?;
                if (t3 == T3::T) != t2 {
                    return None;
                }
                if t2 {
                    out.push(r.k);
                }
            }
        }
    }
    out.sort();
    Some(out)
}
