//! C20, component level: the real streaming response writers (QUERY and SHOW) are fed every
//! small sequence of column batches x duplicate-id pattern x LIMIT x OFFSET, once per
//! renderer; the three byte streams are decoded independently and compared.
//! Runs in a child process per `streaming_batch_size` (the writer reads it from CONFIG).
use crate::lab::*;
use crate::sys::SysConfig;
use serde_json::{json, Value};
use snel_db::command::handlers::query::verif_api::{batch_stream, QueryResponseWriter};
use snel_db::command::handlers::show::verif_api::ShowResponseWriter;
use snel_db::engine::core::read::flow::{BatchPool, BatchSchema, ColumnBatch, FlowChannel, FlowMetrics};
use snel_db::engine::core::read::result::ColumnSpec;
use snel_db::engine::types::ScalarValue;
use snel_db::shared::response::render::Renderer;
use snel_db::shared::response::{ArrowRenderer, JsonRenderer, UnixRenderer};
use std::collections::BTreeMap;
use std::path::PathBuf;
use std::sync::Arc;

fn schema() -> Arc<BatchSchema> {
    let c = |n: &str, t: &str| ColumnSpec { name: n.to_string(), logical_type: t.to_string() };
    Arc::new(BatchSchema::new(vec![c("context_id", "String"), c("event_id", "Number"), c("n", "Integer"), c("f", "Float"), c("s", "String"), c("b", "Boolean")]).expect("schema"))
}

fn row(i: usize, id: u64) -> Vec<ScalarValue> {
    vec![
        ScalarValue::from(json!(format!("c{i}"))),
        ScalarValue::from(json!(id)),
        ScalarValue::from(json!(i as i64 * 1000 - 1)),
        ScalarValue::from(json!(i as f64 + 0.5)),
        if i % 3 == 2 { ScalarValue::Null } else { ScalarValue::from(json!(format!("s{i}"))) },
        ScalarValue::from(json!(i % 2 == 0)),
    ]
}

#[derive(Clone, Copy, Debug, PartialEq)]
pub enum W {
    Query,
    /// SHOW writer: (materialized frame count, watermark filtering)
    Show(usize, bool),
}

fn batches(schema: &Arc<BatchSchema>, ids: &[u64], split: &[usize]) -> Vec<Arc<ColumnBatch>> {
    let pool = BatchPool::new(8).expect("pool");
    let mut out = Vec::new();
    let mut i = 0;
    for len in split {
        let mut b = pool.acquire(Arc::clone(schema));
        for _ in 0..*len {
            b.push_row(&row(i, ids[i])).expect("push");
            i += 1;
        }
        out.push(Arc::new(b.finish().expect("finish")));
    }
    out
}

async fn render(w: W, r: &dyn Renderer, schema: &Arc<BatchSchema>, bs: &[Arc<ColumnBatch>], limit: Option<u32>, offset: Option<u32>) -> Result<Vec<u8>, String> {
    let (tx, rx) = FlowChannel::bounded(bs.len().max(1) + 1, FlowMetrics::new());
    for b in bs {
        tx.send(Arc::clone(b)).await.map_err(|e| format!("send: {e:?}"))?;
    }
    drop(tx);
    let stream = batch_stream(Arc::clone(schema), rx);
    let mut out: Vec<u8> = Vec::new();
    match w {
        W::Query => QueryResponseWriter::new(&mut out, r, Arc::clone(schema), limit, offset).write(stream).await.map_err(|e| format!("write: {e}"))?,
        W::Show(mf, wm) => ShowResponseWriter::new(&mut out, r, Arc::clone(schema), mf, wm, limit, offset).write(stream).await.map_err(|e| format!("write: {e:?}"))?,
    }
    Ok(out)
}

/// compositions of n into positive parts, plus variants with one empty batch inserted
fn splits(n: usize) -> Vec<Vec<usize>> {
    let mut out = Vec::new();
    for mask in 0..(1u32 << (n.saturating_sub(1))) {
        let mut cur = vec![1usize];
        for i in 0..n.saturating_sub(1) {
            if mask & (1 << i) != 0 {
                cur.push(1);
            } else {
                *cur.last_mut().unwrap() += 1;
            }
        }
        out.push(cur);
    }
    // an empty batch in front of / inside the all-in-one composition
    out.push(vec![0, n]);
    if n >= 2 {
        out.push(vec![1, 0, n - 1]);
    }
    out
}

fn id_patterns(n: usize, k: u64) -> Vec<Vec<u64>> {
    let mut out = vec![vec![]];
    for _ in 0..n {
        let mut nx = Vec::new();
        for p in &out {
            for id in 1..=k {
                let mut q: Vec<u64> = p.clone();
                q.push(id);
                nx.push(q);
            }
        }
        out = nx;
    }
    // canonical up to renaming of ids: first occurrences appear in increasing order
    out.into_iter()
        .filter(|p| {
            let mut next = 1;
            for x in p {
                if *x > next {
                    return false;
                }
                if *x == next {
                    next += 1;
                }
            }
            true
        })
        .collect()
}

pub fn child(root: &str, bs: &str, tier: &str, slice: usize, slices: usize) -> i32 {
    let root = PathBuf::from(root);
    let sbs: Option<usize> = bs.parse().ok();
    let cfg = SysConfig { streaming_batch_size: sbs, ..Default::default() };
    let cfg_path = cfg.write(&root);
    unsafe { std::env::set_var("SNELDB_CONFIG", &cfg_path) };
    crate::interpose::pin_entropy(5);
    let rt = tokio::runtime::Builder::new_current_thread().enable_all().build().unwrap();
    let sch = schema();
    let nmax = if tier == "quick" { 5 } else { 7 };
    let writers = [W::Query, W::Show(0, false), W::Show(1, false), W::Show(0, true)];
    let mut cases = 0u64;
    let mut nontrivial = 0u64;
    let mut outcomes: BTreeMap<usize, u64> = BTreeMap::new();
    let mut failing: Vec<Value> = Vec::new();
    let mut by_class: BTreeMap<String, u64> = BTreeMap::new();
    for n in 1..=nmax {
        let limits: Vec<Option<u32>> = std::iter::once(None).chain((0..=n as u32 + 1).map(Some)).collect();
        let offsets: Vec<Option<u32>> = vec![None, Some(0), Some(1), Some(2), Some(n as u32)];
        for (pi, ids) in id_patterns(n, n as u64).into_iter().enumerate() {
            if pi % slices != slice {
                continue;
            }
            for split in splits(n) {
                let bsq = batches(&sch, &ids, &split);
                for w in writers {
                    for limit in &limits {
                        for offset in &offsets {
                            cases += 1;
                            let j = rt.block_on(render(w, &JsonRenderer, &sch, &bsq, *limit, *offset));
                            let a = rt.block_on(render(w, &ArrowRenderer, &sch, &bsq, *limit, *offset));
                            let t = rt.block_on(render(w, &UnixRenderer, &sch, &bsq, *limit, *offset));
                            let mut diffs: Vec<String> = Vec::new();
                            match (j, a, t) {
                                (Ok(j), Ok(a), Ok(t)) => {
                                    let rj = crate::decode::decode_json(&j);
                                    let ra = crate::c20::decode_arrow(&a);
                                    let rt_ = crate::c20::decode_text(&t);
                                    *outcomes.entry(rj.rows.len()).or_insert(0) += 1;
                                    if !rj.rows.is_empty() && rj.rows.len() < n {
                                        nontrivial += 1;
                                    }
                                    diffs.extend(crate::c20::compare(&rj, "json", &ra, "arrow"));
                                    diffs.extend(crate::c20::compare(&rj, "json", &rt_, "text"));
                                    for (name, r) in [("json", &rj), ("text", &rt_)] {
                                        if let Some(k) = r.announced {
                                            if k as usize != r.rows.len() {
                                                diffs.push(format!("{name} end frame announces {k} rows, {} emitted", r.rows.len()));
                                            }
                                        }
                                    }
                                }
                                (j, a, t) => {
                                    for (nm, x) in [("json", j), ("arrow", a), ("text", t)] {
                                        if let Err(e) = x {
                                            diffs.push(format!("{nm}: {e}"));
                                        }
                                    }
                                }
                            }
                            if !diffs.is_empty() {
                                let class = crate::c20::class_of(&diffs);
                                *by_class.entry(class.clone()).or_insert(0) += 1;
                                if failing.len() < 400 {
                                    failing.push(json!({"key": format!("writer={w:?}|bs={bs}|ids={ids:?}|split={split:?}|limit={limit:?}|offset={offset:?}"), "class": class, "diffs": diffs}));
                                }
                            }
                        }
                    }
                }
            }
        }
    }
    println!("{}", json!({"cases": cases, "nontrivial": nontrivial, "outcomes": outcomes.iter().map(|(k, v)| (k.to_string(), *v)).collect::<BTreeMap<_, _>>(), "failing": failing, "by_class": by_class}));
    0
}

/// runs one child per streaming batch size; returns (failing cases, cases, nontrivial, distinct outcomes) or a machinery error
pub fn run(scratch: &Scratch, tier: &str) -> Result<(Vec<crate::golden::Failing>, u64, u64, usize, Vec<String>), String> {
    let sizes: Vec<&str> = if tier == "quick" { vec!["none", "0", "2"] } else { vec!["none", "0", "1", "2", "3"] };
    let slices: usize = if tier == "quick" { 2 } else { 6 };
    let work: Vec<(&str, usize)> = sizes.iter().flat_map(|b| (0..slices).map(move |s| (*b, s))).collect();
    let exe = crate::explore::self_exe();
    let res = par_map(&work, threads(), |_, (bs, slice)| -> Result<Value, String> {
        let d = scratch.dir.join(format!("writer-{bs}-{slice}"));
        let _ = std::fs::create_dir_all(&d);
        let out = std::process::Command::new(&exe).arg("c20child").arg(&d).arg(bs).arg(tier).arg(slice.to_string()).arg(slices.to_string()).env_remove("SNELDB_CONFIG").env("RAYON_NUM_THREADS", "1").output().map_err(|e| format!("spawn: {e}"))?;
        let _ = std::fs::remove_dir_all(&d);
        if !out.status.success() {
            return Err(format!("writer child bs={bs} slice={slice} ended with {:?}: {}", out.status, String::from_utf8_lossy(&out.stderr).chars().take(600).collect::<String>()));
        }
        let text = String::from_utf8_lossy(&out.stdout);
        let line = text.lines().last().unwrap_or("");
        serde_json::from_str(line).map_err(|e| format!("writer child bs={bs} slice={slice}: {e}"))
    });
    let mut failing = Vec::new();
    let (mut cases, mut nontrivial) = (0u64, 0u64);
    let mut outcomes = std::collections::BTreeSet::new();
    for r in res {
        let v = r?;
        cases += v["cases"].as_u64().unwrap_or(0);
        nontrivial += v["nontrivial"].as_u64().unwrap_or(0);
        if let Some(o) = v["outcomes"].as_object() {
            outcomes.extend(o.keys().cloned());
        }
        for f in v["failing"].as_array().cloned().unwrap_or_default() {
            let diffs: Vec<String> = f["diffs"].as_array().map(|a| a.iter().filter_map(|x| x.as_str().map(|s| s.to_string())).collect()).unwrap_or_default();
            failing.push(crate::golden::Failing {
                key: f["key"].as_str().unwrap_or("").to_string(),
                digest: crate::golden::digest(&diffs.join(";")),
                class: format!("response writer fed directly: {}", f["class"].as_str().unwrap_or("")),
                detail: json!({"case": f["key"], "differences": diffs}),
            });
        }
    }
    Ok((failing, cases, nontrivial, outcomes.len(), sizes.iter().map(|s| s.to_string()).collect()))
}
