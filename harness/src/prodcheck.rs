//! Generic product-mode check driver: (data set x config x layout) storage
//! states, a query list per state, a per-reply judge, cross-layout agreement,
//! exact-case known findings (golden), evidence.
use crate::decode::Reply;
use crate::golden::{self, Failing};
use crate::lab::*;
use crate::prod::{self, Layout, Scenario};
use crate::refq::{Row, Schema};
use crate::sys::SysConfig;
use serde_json::{json, Value};
use std::collections::{BTreeMap, BTreeSet};

pub struct Judged {
    /// canonical, layout-independent rendering of the answer (None = do not compare across layouts)
    pub answer: Option<String>,
    /// Err = differs from the reference model
    pub verdict: Result<(), String>,
    /// documentation class for a failure
    pub class: String,
    /// the reference had an opinion and the case discriminates (counts as non-trivial)
    pub nontrivial: bool,
}

pub struct Spec<'a> {
    pub prop: &'a str,
    pub tier: &'a str,
    pub level: &'a str,
    pub schemas: Vec<Schema>,
    pub datasets: Vec<(String, Vec<(usize, Row)>)>,
    pub cfgs: Vec<SysConfig>,
    pub layouts: Vec<Layout>,
    pub queries: Vec<String>,
    /// (rows with ts, layout, query index, reply) -> judgement
    pub judge: &'a (dyn Fn(&[(usize, Row)], &SysConfig, Layout, usize, &[Reply]) -> Judged + Sync),
    pub rule: String,
    pub assumptions: Vec<String>,
    pub describe: &'a (dyn Fn(&str) -> String + Sync),
    pub extra: Value,
}

pub fn run(spec: &Spec) -> i32 {
    let t0 = std::time::Instant::now();
    let scratch = Scratch::new(&spec.prop.to_lowercase());
    let work: Vec<(usize, usize)> = (0..spec.cfgs.len()).flat_map(|c| (0..spec.datasets.len()).map(move |d| (c, d))).collect();
    // per work item: per layout: Result<Vec<Judged>>
    let run_one = |i: usize, ci: usize, di: usize, tag: &str| -> Vec<Result<Vec<Judged>, String>> {
        let mut out = Vec::new();
        for (li, layout) in spec.layouts.iter().enumerate() {
            let sc = Scenario {
                schemas: spec.schemas.clone(),
                rows: spec.datasets[di].1.clone(),
                layout: *layout,
                cfg: spec.cfgs[ci].clone(),
                queries: spec.queries.clone(),
                entropy: 3,
            };
            let d = scratch.dir.join(format!("{tag}{i}l{li}"));
            let r = prod::run(&d, &sc).map(|o| (0..spec.queries.len()).map(|qi| (spec.judge)(&o.rows, &spec.cfgs[ci], *layout, qi, &o.replies)).collect::<Vec<_>>());
            let _ = std::fs::remove_dir_all(&d);
            out.push(r);
        }
        out
    };
    // determinism canary: one work item twice
    if let Some((ci, di)) = work.get(work.len() / 2) {
        let a = run_one(0, *ci, *di, "can");
        let b = run_one(0, *ci, *di, "can");
        let f = |x: &Vec<Result<Vec<Judged>, String>>| format!("{:?}", x.iter().map(|r| r.as_ref().map(|v| v.iter().map(|j| (j.answer.clone(), j.verdict.clone())).collect::<Vec<_>>()).map_err(|e| e.clone())).collect::<Vec<_>>());
        if f(&a) != f(&b) {
            eprintln!("MACHINERY: nondeterminism detected in the canary case of {}", spec.prop);
            return 2;
        }
    }
    let res = par_map(&work, threads(), |i, (ci, di)| run_one(i, *ci, *di, "w"));
    let mut failing: Vec<Failing> = Vec::new();
    let mut evaluations = 0u64;
    let mut nontrivial: BTreeSet<String> = BTreeSet::new();
    let mut outcomes: BTreeSet<String> = BTreeSet::new();
    for (wi, (ci, di)) in work.iter().enumerate() {
        for r in &res[wi] {
            if let Err(e) = r {
                eprintln!("MACHINERY: {} cfg{ci} dataset {}: {e}", spec.prop, spec.datasets[*di].0);
                return 2;
            }
        }
        for qi in 0..spec.queries.len() {
            let mut sig = String::new();
            let mut answers: BTreeSet<String> = BTreeSet::new();
            let mut any_err = false;
            let mut class = String::new();
            let mut detail = Vec::new();
            for (li, layout) in spec.layouts.iter().enumerate() {
                let j = &res[wi][li].as_ref().unwrap()[qi];
                evaluations += 1;
                if j.nontrivial {
                    nontrivial.insert(format!("{ci}|{di}|{qi}"));
                }
                if let Some(a) = &j.answer {
                    answers.insert(a.clone());
                    outcomes.insert(a.clone());
                }
                if let Err(e) = &j.verdict {
                    any_err = true;
                    if class.is_empty() {
                        class = j.class.clone();
                    }
                    sig.push_str(&format!("{layout:?}:{e};"));
                    if detail.len() < 3 {
                        detail.push(json!({"layout": format!("{layout:?}"), "mismatch": e}));
                    }
                } else {
                    sig.push_str(&format!("{layout:?}:ok;"));
                }
            }
            let layout_dep = answers.len() > 1;
            if layout_dep {
                sig.push_str(&format!("answers={answers:?}"));
                if class.is_empty() {
                    class = res[wi][0].as_ref().unwrap()[qi].class.clone();
                }
            }
            if any_err || layout_dep {
                let sc = Scenario {
                    schemas: spec.schemas.clone(),
                    rows: spec.datasets[*di].1.clone(),
                    layout: spec.layouts[0],
                    cfg: spec.cfgs[*ci].clone(),
                    queries: vec![spec.queries[qi].clone()],
                    entropy: 3,
                };
                failing.push(Failing {
                    key: format!("cfg{ci}|{}|{}", spec.datasets[*di].0, spec.queries[qi]),
                    digest: golden::digest(&sig),
                    class: format!("{class}{}", if layout_dep { " [answer depends on the storage layout]" } else { "" }),
                    detail: json!({"query": spec.queries[qi], "dataset": spec.datasets[*di].0, "mismatches": detail, "answers": answers, "scenario_for_verif_scenario_cmd": sc, "layouts": spec.layouts}),
                });
            }
        }
    }
    if let Ok(dump) = std::env::var("VERIF_DUMP") {
        let v: Vec<Value> = failing.iter().map(|f| json!({"key": f.key, "class": f.class, "mismatches": f.detail["mismatches"], "answers": f.detail["answers"]})).collect();
        let _ = std::fs::write(dump, serde_json::to_string(&v).unwrap());
    }
    let verdict = golden::judge(spec.prop, spec.tier, &failing);
    let nv = golden::report(spec.prop, &verdict, spec.describe, 6);
    let mut cov = json!({
        "evaluations": evaluations,
        "distinct_nontrivial": nontrivial.len(),
        "rule": spec.rule,
        "samples": spec.queries.iter().step_by((spec.queries.len() / 8).max(1)).take(8).collect::<Vec<_>>(),
        "storage_states_built": work.len() * spec.layouts.len(),
        "datasets": spec.datasets.len(),
        "configurations": spec.cfgs.len(),
        "layouts": spec.layouts,
        "queries": spec.queries.len(),
        "distinct_answers": outcomes.len(),
        "failing_cases": failing.len(),
        "listed_known_cases": verdict.known_by_class.values().map(|v| v.0).sum::<usize>(),
        "states": work.len() * spec.layouts.len(),
        "transitions": evaluations,
        "traces_validated_against_impl": evaluations,
    });
    if let (Some(c), Some(e)) = (cov.as_object_mut(), spec.extra.as_object()) {
        for (k, v) in e {
            c.insert(k.clone(), v.clone());
        }
    }
    write_evidence(&Evidence {
        property_id: spec.prop.into(),
        tier: spec.tier.into(),
        seed: seed(),
        level: spec.level.into(),
        coverage: cov,
        assumptions: spec.assumptions.clone(),
        wall_s: t0.elapsed().as_secs_f64(),
        violations: nv,
    });
    let _ = BTreeMap::<u8, u8>::new();
    if nv == 0 { 0 } else { 1 }
}
