//! C14 — SHOW of a remembered query equals the live query, each event once.
//! Exhaustive short histories over {STORE in the same ms / same second / next
//! second, FLUSH, COMPACT, RESTART, SHOW} with REMEMBER at every position.
use crate::golden::Failing;
use crate::job::{Op, SnapMode};
use crate::lab::*;
use crate::sys::SysConfig;
use serde_json::json;
use std::collections::BTreeSet;

#[derive(Debug, Clone, Copy, PartialEq, Eq, PartialOrd, Ord)]
enum A {
    /// STORE without advancing the clock (same millisecond as the previous STORE)
    S0,
    /// STORE 1 ms later (same second)
    Sms,
    /// STORE 1 s later
    S1,
    Flush,
    Compact,
    Restart,
    /// SHOW m, then QUERY q
    Show,
}

fn all_seqs(alpha: &[A], d: usize) -> Vec<Vec<A>> {
    let mut out = vec![vec![]];
    let mut fr: Vec<Vec<A>> = vec![vec![]];
    for _ in 0..d {
        let mut nx = Vec::new();
        for s in &fr {
            for a in alpha {
                let mut s2 = s.clone();
                s2.push(*a);
                nx.push(s2);
            }
        }
        out.extend(nx.iter().cloned());
        fr = nx;
    }
    out.into_iter().filter(|s| s.len() == d).collect()
}

struct Case {
    cfg: SysConfig,
    q: &'static str,
    seq: Vec<A>,
    /// REMEMBER is issued before seq[pos]
    pos: usize,
}

/// the event type of this check carries a column of every kind, so that materialised frames
/// have to encode and decode all of them
fn cfg_key(c: &SysConfig) -> String {
    format!("cfg({},{},{}){}", c.shards, c.fill_factor, c.event_per_zone, c.streaming_batch_size.map(|b| format!("rows{b}")).unwrap_or_default())
}

fn define14() -> String {
    "DEFINE a FIELDS { k: \"int\", s: \"string\", ta: \"int\", n: \"int\", f: \"float\", dd: \"date\", dt: \"datetime\", en: [\"x\", \"y\"], bb: \"bool\", ob: \"int | null\" }".to_string()
}

fn store_cmd(k: i64) -> String {
    let e = Ev { k, typ: "a".into(), ctx: format!("c{}", k % 2) };
    let ob = if k % 2 == 0 { format!(",\"ob\":{}", k * 3) } else { String::new() };
    format!(
        "STORE a FOR {} PAYLOAD {{\"k\":{k},\"s\":\"{}{k}\",\"ta\":1,\"n\":{},\"f\":{:?},\"dd\":\"2023-11-{:02}\",\"dt\":{},\"en\":\"{}\",\"bb\":{}{ob}}}",
        e.ctx,
        // strings of the stored frames: ASCII, a Latin-1 letter (two UTF-8 bytes), a three-byte character
        ["v", "Zo\u{eb} M\u{fc}ller ", "\u{2603}"][(k % 3) as usize],
        e.big(),
        e.frac(),
        10 + k % 15,
        1_700_000_000 + k,
        if k % 3 == 0 { "x" } else { "y" },
        k % 2 == 1
    )
}

/// returns per SHOW: (show keys, query keys, show status), plus status of the second REMEMBER
fn run_case(dir: &std::path::Path, c: &Case) -> Result<(Vec<(Vec<i64>, Vec<i64>, u16)>, u16, u16), String> {
    let mut lives: Vec<Vec<Op>> = vec![vec![Op::Cmd { text: define14() }, Op::Cmd { text: store_cmd(0) }]];
    let mut k = 1i64;
    let mut show_pos: Vec<(usize, usize)> = Vec::new();
    let mut remember_pos = (0usize, 0usize);
    for (i, a) in c.seq.iter().enumerate() {
        if i == c.pos {
            let li = lives.len() - 1;
            remember_pos = (li, lives[li].len());
            lives[li].push(Op::Cmd { text: format!("REMEMBER QUERY {} AS m1", &c.q["QUERY ".len()..]) });
        }
        let li = lives.len() - 1;
        match a {
            A::S0 | A::Sms | A::S1 => {
                match a {
                    A::Sms => lives[li].push(Op::Tick { ms: 1 }),
                    A::S1 => lives[li].push(Op::Tick { ms: 1000 }),
                    _ => {}
                }
                lives[li].push(Op::Cmd { text: store_cmd(k) });
                k += 1;
            }
            A::Flush => lives[li].push(Op::FlushSeq),
            A::Compact => lives[li].push(Op::CompactAll),
            A::Restart => {
                lives[li].push(Op::ShutdownSeq);
                lives.push(vec![Op::Tick { ms: 1000 }]);
            }
            A::Show => {
                show_pos.push((li, lives[li].len()));
                lives[li].push(Op::Observe { queries: vec!["SHOW m1".into(), c.q.to_string()] });
            }
        }
    }
    if c.pos >= c.seq.len() {
        let li = lives.len() - 1;
        remember_pos = (li, lives[li].len());
        lives[li].push(Op::Cmd { text: format!("REMEMBER QUERY {} AS m1", &c.q["QUERY ".len()..]) });
    }
    // final SHOW twice and a second REMEMBER under the same name
    let li = lives.len() - 1;
    show_pos.push((li, lives[li].len()));
    lives[li].push(Op::Observe { queries: vec!["SHOW m1".into(), c.q.to_string()] });
    show_pos.push((li, lives[li].len()));
    lives[li].push(Op::Observe { queries: vec!["SHOW m1".into(), c.q.to_string()] });
    let second = (li, lives[li].len());
    lives[li].push(Op::Cmd { text: format!("REMEMBER QUERY {} AS m1", &c.q["QUERY ".len()..]) });
    // the rejected REMEMBER must be without effect: SHOW once more
    show_pos.push((li, lives[li].len()));
    lives[li].push(Op::Observe { queries: vec!["SHOW m1".into(), c.q.to_string()] });
    let specs: Vec<LifeSpec> = lives.into_iter().map(|ops| LifeSpec { ops, snap: SnapMode::Off, fsmon: false }).collect();
    // the clock only moves by Tick ops: several STOREs share one millisecond
    let root = dir.join("db");
    let mut clock = BASE_CLOCK_MS;
    let mut results = Vec::new();
    for (li, life) in specs.iter().enumerate() {
        let job = crate::job::Job { root: root.to_string_lossy().into_owned(), cfg: c.cfg.clone(), entropy: 17 + li as u64, clock_ms: clock, clock_step_ms: 0, ops: life.ops.clone(), ..Default::default() };
        let r = crate::explore::run_child(&job, &dir.join(format!("job{li}.json")))?;
        if let Some(e) = &r.error {
            return Err(format!("engine error: {e}"));
        }
        clock += life.ops.iter().map(|o| if let Op::Tick { ms } = o { *ms } else { 0 }).sum::<i64>();
        results.push(r);
    }
    let _ = std::fs::remove_dir_all(dir);
    let keys = |rep: &crate::decode::Reply| -> Vec<i64> {
        let mut v: Vec<i64> = rep.rows.iter().filter_map(|r| r.get("k").and_then(|x| x.as_i64())).collect();
        v.sort();
        v
    };
    let mut out = Vec::new();
    for (li, oi) in &show_pos {
        let st = &results[*li].steps[*oi];
        if *li < remember_pos.0 || (*li == remember_pos.0 && *oi < remember_pos.1) {
            continue; // SHOW before REMEMBER: unknown name, not judged
        }
        out.push((keys(&st.replies[0]), keys(&st.replies[1]), st.replies[0].status));
    }
    let rem = results[remember_pos.0].steps[remember_pos.1].replies.first().map(|r| r.status).unwrap_or(0);
    let sec = results[second.0].steps[second.1].replies.first().map(|r| r.status).unwrap_or(0);
    Ok((out, rem, sec))
}

pub fn check(tier: &str) -> i32 {
    let t0 = std::time::Instant::now();
    let scratch = Scratch::new("c14");
    let alpha: Vec<A> = if tier == "quick" { vec![A::S0, A::S1, A::Flush, A::Compact, A::Restart, A::Show] } else { vec![A::S0, A::Sms, A::S1, A::Flush, A::Compact, A::Restart, A::Show] };
    let d = if tier == "quick" { 3 } else { 4 };
    let qs: Vec<&'static str> = if tier == "quick" { vec!["QUERY a", "QUERY a WHERE k >= 1"] } else { vec!["QUERY a", "QUERY a WHERE k >= 1", "QUERY a FOR c0", "QUERY a RETURN [k]"] };
    // the third configuration keeps several events in one zone of one shard, so that a zone can
    // straddle the high-water mark (older and newer events flushed together)
    let cfgs = vec![
        SysConfig { fill_factor: 2, event_per_zone: 1, ..Default::default() },
        SysConfig { fill_factor: 4, event_per_zone: 2, shards: 2, ..Default::default() },
        SysConfig { fill_factor: 4, event_per_zone: 4, ..Default::default() },
        // row frames instead of batch frames on the response path (streaming_batch_size = 0)
        SysConfig { fill_factor: 4, event_per_zone: 2, streaming_batch_size: Some(0), ..Default::default() },
    ];
    let mut cases = Vec::new();
    for (ci, cfg) in cfgs.iter().enumerate() {
        for q in &qs {
            for seq in all_seqs(&alpha, d) {
                // at least one STORE and no leading no-ops
                if !seq.iter().any(|a| matches!(a, A::S0 | A::Sms | A::S1)) {
                    continue;
                }
                for pos in 0..=seq.len() {
                    if tier == "quick" && (ci == 1 && pos % 2 == 1) {
                        continue;
                    }
                    // the row-frame configuration: first query only, every second REMEMBER position
                    if ci == 3 && (*q != qs[0] || pos % 2 == 1) {
                        continue;
                    }
                    cases.push(Case { cfg: cfg.clone(), q, seq: seq.clone(), pos });
                }
            }
        }
    }
    // debugging aid: VERIF_C14_ONLY=<substring of a case key> runs the matching cases only (no verdict is to be drawn from such a run)
    if let Ok(f) = std::env::var("VERIF_C14_ONLY") {
        cases.retain(|c| format!("{}|{}|{:?}|remember@{}", cfg_key(&c.cfg), c.q, c.seq, c.pos).contains(&f));
        eprintln!("VERIF_C14_ONLY: {} cases", cases.len());
    }
    let res = par_map(&cases, threads(), |i, c| run_case(&scratch.dir.join(format!("h{i}")), c));
    let again = par_map(&cases[..8.min(cases.len())], threads(), |i, c| run_case(&scratch.dir.join(format!("k{i}")), c));
    for (i, r) in again.iter().enumerate() {
        if let (Ok(a), Ok(b)) = (r, &res[i]) {
            if a != b {
                eprintln!("MACHINERY: nondeterminism in case {i}");
                return 2;
            }
        }
    }
    let mut failing = Vec::new();
    let mut shows = 0u64;
    let mut nontrivial = 0u64;
    let mut outcomes: BTreeSet<String> = BTreeSet::new();
    for (i, r) in res.iter().enumerate() {
        let c = &cases[i];
        let key0 = format!("{}|{}|{:?}|remember@{}", cfg_key(&c.cfg), c.q, c.seq, c.pos);
        match r {
            Err(e) if e.contains("panic in job") => {
                // the engine panicked while serving a command of the history (e.g. a SHOW that cannot
                // decode its stored frames): a failed answer, not a failure of the machinery
                failing.push(Failing { key: key0.clone(), digest: crate::golden::digest(&e.chars().filter(|c| !c.is_ascii_digit()).collect::<String>()), class: "the engine panics while serving a command of the history".into(), detail: json!({"query": c.q, "history": format!("{:?}", c.seq), "remember_before_op": c.pos, "error": e}) });
            }
            Err(e) => {
                eprintln!("MACHINERY: {key0}: {e}");
                return 2;
            }
            Ok((obs, rem, sec)) => {
                let mut problems: Vec<(String, String)> = Vec::new();
                if *rem != 200 {
                    problems.push(("REMEMBER rejected".into(), format!("REMEMBER answered {rem}")));
                }
                if *sec == 200 {
                    problems.push(("REMEMBER under an existing name accepted".into(), "second REMEMBER ... AS m1 answered 200".into()));
                }
                for (si, (show, live, status)) in obs.iter().enumerate() {
                    shows += 1;
                    if live.len() > 1 {
                        nontrivial += 1;
                    }
                    outcomes.insert(format!("{show:?}"));
                    if *status != 200 && *rem == 200 {
                        problems.push(("SHOW fails".into(), format!("SHOW #{si} answered {status}")));
                    } else if show != live {
                        let mut dedup = show.clone();
                        dedup.dedup();
                        let kind = if dedup.len() != show.len() {
                            "SHOW returns an event twice"
                        } else if show.iter().all(|k| live.contains(k)) {
                            "SHOW misses events of the live query"
                        } else {
                            "SHOW returns events the live query does not"
                        };
                        problems.push((kind.into(), format!("SHOW #{si} returned k={show:?}, QUERY returned k={live:?}")));
                    }
                }
                // the last two SHOWs (nothing arrived in between) must agree
                if obs.len() >= 2 {
                    let n = obs.len();
                    if obs[n - 1].0 != obs[n - 2].0 {
                        problems.push(("repeated SHOW differs".into(), format!("{:?} then {:?}", obs[n - 2].0, obs[n - 1].0)));
                    }
                }
                if let Some((class, _)) = problems.first() {
                    failing.push(Failing {
                        key: key0.clone(),
                        digest: crate::golden::digest(&format!("{problems:?}")),
                        class: class.clone(),
                        detail: json!({"query": c.q, "history": format!("{:?}", c.seq), "remember_before_op": c.pos, "problems": problems}),
                    });
                }
            }
        }
    }
    let verdict = crate::golden::judge("C14", tier, &failing);
    let nv = crate::golden::report("C14", &verdict, &|_| "SHOW of a remembered query differs from the live query (exact cases in known/C14.*.json)".to_string(), 6);
    write_evidence(&Evidence {
        property_id: "C14".into(),
        tier: tier.into(),
        seed: seed(),
        level: "model_checking".into(),
        coverage: json!({
            "states": cases.len(),
            "transitions": shows,
            "traces_validated_against_impl": cases.len(),
            "samples": cases.iter().step_by((cases.len() / 6).max(1)).take(6).map(|c| json!({"query": c.q, "history": format!("{:?}", c.seq), "remember_before_op": c.pos, "shards": c.cfg.shards})).collect::<Vec<_>>(),
            "histories": cases.len(),
            "show_commands_judged": shows,
            "with_more_than_one_live_row": nontrivial,
            "distinct_show_answers": outcomes.len(),
            "failing_cases": failing.len(),
            "depth": d,
            "exhaustive": tier != "quick",
            "explanation": "all sequences of length d over {STORE in the same millisecond, (STORE 1 ms later,) STORE 1 s later, FLUSH, COMPACT, RESTART, SHOW+QUERY} with REMEMBER inserted at every position (quick: every second position on the 2-shard configuration), followed by two SHOWs, a second REMEMBER under the same name and one more SHOW (the rejected REMEMBER must be without effect); events alternate between two contexts (different shards when there are two); oracle: keys of SHOW m == keys of QUERY q issued right after, each once; repeated SHOW identical; second REMEMBER rejected",
        }),
        assumptions: vec!["wall clock injected by interposing clock_gettime; it moves only where the history says so".into()],
        wall_s: t0.elapsed().as_secs_f64(),
        violations: nv,
    });
    if nv == 0 { 0 } else { 1 }
}
