mod c01;
mod c01model;
mod c17;
mod c18;
mod decode;
mod explore;
mod fsmon;
mod interpose;
mod job;
mod known;
mod lab;
mod sys;

fn main() {
    let args: Vec<String> = std::env::args().collect();
    let code = match args.get(1).map(|s| s.as_str()) {
        Some("job") => {
            let path = &args[2];
            let text = std::fs::read_to_string(path).expect("job file");
            let job: job::Job = serde_json::from_str(&text).expect("job json");
            let res = job::run_job(job);
            let out = serde_json::to_string(&res).unwrap();
            std::fs::write(format!("{path}.out"), out).expect("write result");
            0
        }
        Some("parse1") => c17::parse1(&args[2]),
        Some("selftest") => match interpose::self_test(std::path::Path::new(&args[2])) {
            Ok(()) => {
                println!("selftest ok");
                0
            }
            Err(e) => {
                eprintln!("{e}");
                2
            }
        },
        Some("check") => {
            let id = args[2].as_str();
            let tier = lab::tier();
            match id {
                "C01" => c01::check(&tier),
                "C17" => c17::check(&tier),
                "C18" => c18::check(&tier),
                _ => {
                    eprintln!("no such check {id}");
                    2
                }
            }
        }
        Some("c01raw") => {
            let depth: usize = args[2].parse().unwrap();
            let snap = match args.get(3).map(|s| s.as_str()) {
                Some("fine") => job::SnapMode::Fine,
                Some("off") => job::SnapMode::Off,
                _ => job::SnapMode::Coarse,
            };
            use c01::Tok::*;
            c01::explore_raw(depth, &[Sa, Fill, Flush, Compact, Restart], &sys::SysConfig::default(), snap);
            0
        }
        _ => {
            eprintln!("usage: verif job <file> | selftest <dir> | check <ID> ...");
            2
        }
    };
    // background tasks / blocking threads are irrelevant once the result is out
    std::process::exit(code);
}
