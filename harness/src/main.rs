mod c01;
mod c01model;
mod c02;
mod c03;
mod c04;
mod c05;
mod c06;
mod c07;
mod c08;
mod c09;
mod c10;
mod c11;
mod c12;
mod c13;
mod c14;
mod c15;
mod c16;
mod c17;
mod c18;
mod c19;
mod c20;
mod c20w;
mod decode;
mod explore;
mod fsmon;
mod golden;
mod interpose;
mod job;
mod known;
mod lab;
mod prod;
mod prodcheck;
mod refq;
mod sys;

fn main() {
    let args: Vec<String> = std::env::args().collect();
    let code = match args.get(1).map(|s| s.as_str()) {
        Some("job") => {
            let path = &args[2];
            let text = std::fs::read_to_string(path).expect("job file");
            let job: job::Job = serde_json::from_str(&text).expect("job json");
            let res = job::run_job(job);
            let out = serde_json::to_string(&res).unwrap();
            std::fs::write(format!("{path}.out"), out).expect("write result");
            0
        }
        Some("c08child") => c08::child(&args[2], &args[3]),
        Some("c20child") => c20w::child(&args[2], &args[3], &args[4], args.get(5).and_then(|s| s.parse().ok()).unwrap_or(0), args.get(6).and_then(|s| s.parse().ok()).unwrap_or(1)),
        Some("c19child") => c19::child(&args[2], &args[3]),
        Some("c18child") => c18::child(&args[2], &args[3]),
        Some("parse1") => c17::parse1(&args[2]),
        Some("selftest") => match interpose::self_test(&explore::work_root()) {
            Ok(()) => {
                println!("selftest ok");
                0
            }
            Err(e) => {
                eprintln!("{e}");
                2
            }
        },
        Some("check") => {
            let id = args[2].as_str();
            let tier = lab::tier();
            match id {
                "C01" => c01::check(&tier),
                "C02" => c02::check(&tier),
                "C03" => c03::check(&tier),
                "C04" => c04::check(&tier),
                "C05" => c05::check(&tier),
                "C06" => c06::check(&tier),
                "C07" => c07::check(&tier),
                "C08" => c08::check(&tier),
                "C09" => c09::check(&tier),
                "C10" => c10::check(&tier),
                "C11" => c11::check(&tier),
                "C12" => c12::check(&tier),
                "C13" => c13::check(&tier),
                "C14" => c14::check(&tier),
                "C15" => c15::check(&tier),
                "C16" => c16::check(&tier),
                "C17" => c17::check(&tier),
                "C18" => c18::check(&tier),
                "C19" => c19::check(&tier),
                "C20" => c20::check(&tier),
                _ => {
                    eprintln!("no such check {id}");
                    2
                }
            }
        }
        Some("c01replay") => c01::replay(&args[2], args.get(3).map(|s| s.as_str())),
        Some("c03replay") => c03::replay(&args[2]),
        Some("scenario") => {
            // replay helper: run one product-mode scenario file and print the key list of every reply
            let sc: prod::Scenario = serde_json::from_str(&std::fs::read_to_string(&args[2]).expect("scenario file")).expect("scenario json");
            let scratch = lab::Scratch::new(&format!("scen-{}", std::process::id()));
            match prod::run(&scratch.dir, &sc) {
                Ok(out) => {
                    for (q, r) in sc.queries.iter().zip(out.replies.iter()) {
                        let ids: Vec<serde_json::Value> = r.rows.iter().map(|row| row.get("id").or(row.get("k")).cloned().unwrap_or(serde_json::Value::Null)).collect();
                        println!("{q} -> status {} rows {} keys {:?} {}", r.status, r.rows.len(), ids, r.failure.clone().unwrap_or_default());
                        if std::env::var("VERIF_ROWS").is_ok() {
                            println!("    columns {:?} message {:?}", r.columns, r.message);
                            for row in &r.rows {
                                println!("    {}", serde_json::Value::Object(row.clone()));
                            }
                        }
                    }
                    0
                }
                Err(e) => {
                    eprintln!("{e}");
                    2
                }
            }
        }
        Some("c02raw") => {
            c02::raw(&lab::tier());
            0
        }
        Some("c01raw") => {
            let depth: usize = args[2].parse().unwrap();
            let snap = match args.get(3).map(|s| s.as_str()) {
                Some("fine") => job::SnapMode::Fine,
                Some("off") => job::SnapMode::Off,
                _ => job::SnapMode::Coarse,
            };
            use c01::Tok::*;
            c01::explore_raw(depth, &[Sa, Fill, Flush, Compact, Restart], &sys::SysConfig::default(), snap);
            0
        }
        _ => {
            eprintln!("usage: verif job <file> | selftest <dir> | check <ID> ...");
            2
        }
    };
    // background tasks / blocking threads are irrelevant once the result is out
    std::process::exit(code);
}
