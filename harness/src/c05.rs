//! C05 — compaction changes layout, never content.
//! (a) every assignment of event types to 3-4 L0 segments x merge fan-in, three
//!     compaction rounds, full observation after every round;
//! (b) schedx: the compaction task is held at each of its gates while a client reads;
//! (c) crashx: every FS-mutation boundary of compaction rounds (through the C01 machinery).
use crate::c01::{self, Tok};
use crate::job::{Job, JobResult, Op, SnapMode};
use crate::lab::*;
use crate::sys::SysConfig;
use serde::Serialize;
use serde_json::json;
use std::collections::{BTreeMap, BTreeSet, HashSet};
use std::sync::Mutex;

const TYPES: [&str; 2] = ["a", "b"];
const CTXS: [&str; 2] = ["c0", "c1"];

#[derive(Debug, Clone, Serialize)]
pub struct Pop {
    pub cfg: SysConfig,
    /// per segment: bitmask of types present (1 = a, 2 = b)
    pub segs: Vec<u8>,
    pub rounds: usize,
}

fn suite_q() -> Vec<String> {
    let mut q = suite(&TYPES, &CTXS);
    q.push("QUERY a WHERE k >= 3".into());
    q.push("QUERY b WHERE k >= 3".into());
    q.push("REPLAY a FOR c1".into());
    q.push("REPLAY b FOR c0".into());
    q
}

struct Built {
    ops: Vec<Op>,
    events: Vec<Ev>,
    observes: Vec<(usize, String)>,
}

fn build(p: &Pop, park: Option<&(String, usize, u64, usize)>) -> Built {
    let mut ops = vec![Op::Cmd { text: define_cmd("a") }, Op::Cmd { text: define_cmd("b") }];
    let mut events = Vec::new();
    let mut k = 0i64;
    for mask in &p.segs {
        for (ti, t) in TYPES.iter().enumerate() {
            if mask & (1 << ti) != 0 {
                // two rows per present type, one in each context
                for c in CTXS {
                    let e = Ev { k, typ: t.to_string(), ctx: c.to_string() };
                    k += 1;
                    ops.push(Op::Cmd { text: e.store_cmd() });
                    events.push(e);
                }
            }
        }
        ops.push(Op::Cmd { text: "FLUSH".into() });
    }
    let mut observes = vec![(ops.len(), "before".to_string())];
    ops.push(Op::Observe { queries: suite_q() });
    match park {
        None => {
            for r in 0..p.rounds {
                ops.push(Op::CompactAll);
                observes.push((ops.len(), format!("after round {}", r + 1)));
                ops.push(Op::Observe { queries: suite_q() });
            }
        }
        Some(g) => {
            ops.push(Op::Park { gate: g.0.clone(), shard: g.1, seg: Some(g.2), nth: g.3 });
            ops.push(Op::CompactBg { shard: g.1 });
            observes.push((ops.len(), format!("held at {}", g.0)));
            ops.push(Op::Observe { queries: suite_q() });
            ops.push(Op::Resume);
            observes.push((ops.len(), "released".to_string()));
            ops.push(Op::Observe { queries: suite_q() });
        }
    }
    Built { ops, events, observes }
}

fn run(dir: &std::path::Path, p: &Pop, park: Option<&(String, usize, u64, usize)>) -> Result<(Built, JobResult), String> {
    let b = build(p, park);
    let job = Job { root: dir.join("db").to_string_lossy().into_owned(), cfg: p.cfg.clone(), entropy: 9, clock_ms: BASE_CLOCK_MS, clock_step_ms: 1000, ops: b.ops.clone(), fsmon: true, ..Default::default() };
    let r = crate::explore::run_child(&job, &dir.join("job.json"))?;
    let _ = std::fs::remove_dir_all(dir);
    if let Some(e) = &r.error {
        return Err(format!("engine error: {e}"));
    }
    Ok((b, r))
}

/// (d) the same population and rounds, then a clean shutdown and a fresh process: the
/// observation of the second lifetime is appended to the first lifetime's result as one more step
fn run_restart(dir: &std::path::Path, p: &Pop) -> Result<(Built, JobResult), String> {
    let mut b = build(p, None);
    b.ops.push(Op::ShutdownSeq);
    let lives = vec![
        LifeSpec { ops: b.ops.clone(), snap: SnapMode::Off, fsmon: true },
        LifeSpec { ops: vec![Op::Observe { queries: suite_q() }], snap: SnapMode::Off, fsmon: true },
    ];
    let mut rr = run_lifetimes(dir, &p.cfg, 9, &lives, false)?;
    let _ = std::fs::remove_dir_all(dir);
    for r in &rr {
        if let Some(e) = &r.error {
            return Err(format!("engine error: {e}"));
        }
    }
    let second = rr.pop().unwrap();
    let mut first = rr.pop().unwrap();
    // keep only 'before' and the observation after the restart
    b.observes.truncate(1);
    b.observes.push((first.steps.len(), "after clean restart".to_string()));
    first.steps.extend(second.steps);
    first.monitor.extend(second.monitor);
    Ok((b, first))
}

// ---------------------------------------------------------------------------------------------
// (e) flush and compaction interleaved: a flush runs while the compaction task is held at a gate
//     (mode A), and a compaction round runs while a flush task is held at a gate (mode B);
//     afterwards: release, read, clean restart, read.
// ---------------------------------------------------------------------------------------------

#[derive(Debug, Clone, Serialize)]
pub struct Race {
    pub pop: Pop,
    /// true: compaction held, flush runs; false: flush held, compaction runs
    pub compaction_held: bool,
    pub park: Option<(String, usize, u64, usize)>,
}

pub struct RaceBuilt {
    lives: Vec<Vec<Op>>,
    /// (life, op index, stage, events stored before it)
    observes: Vec<(usize, usize, String, Vec<Ev>)>,
    /// op index (life 0) of the step that runs the un-held activity, for gate recording
    flush_ops: (usize, usize),
    compact_op: usize,
}

fn build_race(r: &Race) -> RaceBuilt {
    let b = build(&r.pop, None);
    // keep: defines, population, 'before' observe
    let cut = b.observes[0].0 + 1;
    let mut ops: Vec<Op> = b.ops[..cut].to_vec();
    let mut events: Vec<Ev> = b.events.clone();
    let mut observes = vec![(0usize, b.observes[0].0, "before".to_string(), events.clone())];
    let cap = r.pop.cfg.capacity();
    let mut k = events.len() as i64;
    let mut store_all = |ops: &mut Vec<Op>, events: &mut Vec<Ev>| -> (usize, usize) {
        let from = ops.len();
        for i in 0..cap {
            let e = if i % 2 == 0 { Ev { k, typ: "a".into(), ctx: "c0".into() } } else { Ev { k, typ: "b".into(), ctx: "c1".into() } };
            k += 1;
            ops.push(Op::Cmd { text: e.store_cmd() });
            events.push(e);
        }
        (from, ops.len())
    };
    let mut flush_ops = (0, 0);
    let mut compact_op = 0;
    match (&r.park, r.compaction_held) {
        (None, true) => {
            // recording run A: one compaction round, then the flush
            compact_op = ops.len();
            ops.push(Op::Compact { shard: 0 });
            flush_ops = store_all(&mut ops, &mut events);
        }
        (None, false) => {
            flush_ops = store_all(&mut ops, &mut events);
            compact_op = ops.len();
            ops.push(Op::Compact { shard: 0 });
        }
        (Some(g), true) => {
            ops.push(Op::Park { gate: g.0.clone(), shard: g.1, seg: Some(g.2), nth: g.3 });
            ops.push(Op::CompactBg { shard: 0 });
            flush_ops = store_all(&mut ops, &mut events);
            observes.push((0, ops.len(), format!("compaction held at {}, flush done", g.0), events.clone()));
            ops.push(Op::Observe { queries: suite_q() });
            ops.push(Op::Resume);
        }
        (Some(g), false) => {
            ops.push(Op::Park { gate: g.0.clone(), shard: g.1, seg: Some(g.2), nth: g.3 });
            flush_ops = store_all(&mut ops, &mut events);
            ops.push(Op::CompactBg { shard: 0 });
            observes.push((0, ops.len(), format!("flush held at {}, compaction started", g.0), events.clone()));
            ops.push(Op::Observe { queries: suite_q() });
            ops.push(Op::Resume);
        }
    }
    ops.push(Op::Barrier);
    observes.push((0, ops.len(), "both finished".to_string(), events.clone()));
    ops.push(Op::Observe { queries: suite_q() });
    ops.push(Op::ShutdownSeq);
    observes.push((1, 0, "after clean restart".to_string(), events.clone()));
    let life1 = vec![Op::Observe { queries: suite_q() }];
    RaceBuilt { lives: vec![ops, life1], observes, flush_ops, compact_op }
}

pub fn run_race(dir: &std::path::Path, r: &Race) -> Result<(RaceBuilt, Vec<JobResult>), String> {
    let b = build_race(r);
    let lives: Vec<LifeSpec> = b.lives.iter().map(|ops| LifeSpec { ops: ops.clone(), snap: SnapMode::Off, fsmon: true }).collect();
    let rr = run_lifetimes(dir, &r.pop.cfg, 9, &lives, false)?;
    let _ = std::fs::remove_dir_all(dir);
    for x in &rr {
        if let Some(e) = &x.error {
            return Err(format!("engine error: {e}"));
        }
    }
    Ok((b, rr))
}

/// (key, what, tag) per failing answer
fn judge_race(r: &Race, b: &RaceBuilt, rr: &[JobResult]) -> (Vec<(String, String, String)>, usize) {
    let mut out = Vec::new();
    let mut reads = 0;
    let id = format!("race {}|segs={:?} k={}|park={:?}", if r.compaction_held { "A" } else { "B" }, r.pop.segs, r.pop.cfg.segments_per_merge, r.park.as_ref().map(|p| (&p.0, p.2, p.3)));
    for (li, x) in rr.iter().enumerate() {
        for (i, st) in x.steps.iter().enumerate() {
            if st.blocked {
                out.push((format!("{id}|life {li} op {i}|blocked"), "operation blocked".to_string(), "blocked".to_string()));
            }
            if st.note.contains("error=") || st.note.contains("bg_error") || st.note.contains("bg_blocked") {
                out.push((format!("{id}|life {li} op {i}|error"), format!("background task: {}", st.note), "compaction-error".to_string()));
            }
        }
        for v in &x.monitor {
            out.push((format!("{id}|life {li}|fsmon"), v.clone(), "fsmon".to_string()));
        }
    }
    let mut pre_wrong: BTreeSet<String> = BTreeSet::new();
    for (li, opi, stage, events) in &b.observes {
        let Some(step) = rr.get(*li).and_then(|x| x.steps.get(*opi)) else { continue };
        if step.replies.len() < 10 {
            continue;
        }
        reads += step.replies.len();
        let o = parse_obs(&step.replies[..6], &TYPES, &CTXS);
        let mut answers: Vec<(String, Vec<i64>, Vec<i64>)> = Vec::new();
        for (ti, t) in TYPES.iter().enumerate() {
            let mut want: Vec<i64> = events.iter().filter(|e| e.typ == *t).map(|e| e.k).collect();
            want.sort();
            answers.push((format!("QUERY {t}"), o.query.get(*t).cloned().unwrap_or_default(), want.clone()));
            answers.push((format!("COUNT {t}"), vec![o.count.get(*t).copied().unwrap_or(0)], vec![want.len() as i64]));
            let mut gf: Vec<i64> = step.replies[6 + ti].rows.iter().filter_map(|row| row.get("k").and_then(|v| v.as_i64())).collect();
            gf.sort();
            answers.push((format!("QUERY {t} WHERE k >= 3"), gf, want.iter().copied().filter(|k| *k >= 3).collect()));
        }
        for (t, c) in [("a", "c0"), ("b", "c1")] {
            let mut wr: Vec<i64> = events.iter().filter(|e| e.typ == t && e.ctx == c).map(|e| e.k).collect();
            wr.sort();
            let mut gr: Vec<i64> = o.replay.get(c).map(|v| v.iter().map(|x| x.1).collect()).unwrap_or_default();
            gr.sort();
            answers.push((format!("REPLAY {t} FOR {c}"), gr, wr));
        }
        for e in &o.errors {
            out.push((format!("{id}|{stage}|read-error"), format!("error: {e}"), "read-error".to_string()));
        }
        for (label, got, want) in answers {
            if stage == "before" {
                if got != want {
                    pre_wrong.insert(label);
                }
                continue;
            }
            if pre_wrong.contains(&label) {
                continue;
            }
            if got != want {
                let more = if label.starts_with("COUNT") { got[0] > want[0] } else { got.len() > want.len() };
                let tag = match (label.starts_with("COUNT"), more) {
                    (true, true) => "count-high",
                    (true, false) => "count-low",
                    (false, true) => "dup-rows",
                    (false, false) => "lost-rows",
                };
                out.push((format!("{id}|{stage}|{label}"), format!("{label}: stored {want:?}, returned {got:?}"), tag.to_string()));
            }
        }
    }
    (out, reads)
}

#[derive(Debug, Clone, Serialize)]
struct Finding {
    pop: Pop,
    park: Option<(String, usize, u64, usize)>,
    stage: String,
    what: String,
    tag: String,
}

fn judge(p: &Pop, park: Option<&(String, usize, u64, usize)>, b: &Built, r: &JobResult) -> (Vec<Finding>, usize, BTreeSet<String>) {
    let mut out = Vec::new();
    let mut reads = 0;
    let mut outcomes = BTreeSet::new();
    let mk = |stage: &str, what: String, tag: &str| Finding { pop: p.clone(), park: park.cloned(), stage: stage.to_string(), what, tag: tag.to_string() };
    for (i, st) in r.steps.iter().enumerate() {
        if st.blocked {
            out.push(mk(&format!("op {i}"), "operation blocked".into(), "blocked"));
        }
        if st.note.contains("error=") || st.note.contains("bg_error") {
            out.push(mk(&format!("op {i}"), format!("compaction failed: {}", st.note), "compaction-error"));
        }
    }
    for v in &r.monitor {
        out.push(mk("fs monitor", v.clone(), "fsmon"));
    }
    // canonical answers of one observation: label -> (got, want)
    let answers = |step: &crate::job::StepResult| -> (Vec<(String, Vec<i64>, Vec<i64>)>, Vec<String>) {
        let o = parse_obs(&step.replies[..6], &TYPES, &CTXS);
        let mut v = Vec::new();
        for (ti, t) in TYPES.iter().enumerate() {
            let mut want: Vec<i64> = b.events.iter().filter(|e| e.typ == *t).map(|e| e.k).collect();
            want.sort();
            v.push((format!("QUERY {t}"), o.query.get(*t).cloned().unwrap_or_default(), want.clone()));
            v.push((format!("COUNT {t}"), vec![o.count.get(*t).copied().unwrap_or(0)], vec![want.len() as i64]));
            let mut gf: Vec<i64> = step.replies[6 + ti].rows.iter().filter_map(|row| row.get("k").and_then(|v| v.as_i64())).collect();
            gf.sort();
            v.push((format!("QUERY {t} WHERE k >= 3"), gf, want.iter().copied().filter(|k| *k >= 3).collect()));
        }
        let combos = [("a", "c0", None), ("b", "c1", None), ("a", "c1", Some(8usize)), ("b", "c0", Some(9usize))];
        for (t, c, idx) in combos {
            let mut wr: Vec<i64> = b.events.iter().filter(|e| e.typ == t && e.ctx == c).map(|e| e.k).collect();
            wr.sort();
            let mut gr: Vec<i64> = match idx {
                None => o.replay.get(c).map(|v| v.iter().map(|x| x.1).collect()).unwrap_or_default(),
                Some(i) => step.replies[i].rows.iter().filter_map(|row| row.get("k").and_then(|v| v.as_i64())).collect(),
            };
            gr.sort();
            v.push((format!("REPLAY {t} FOR {c}"), gr, wr));
        }
        (v, o.errors)
    };
    let mut before: Option<Vec<(String, Vec<i64>, Vec<i64>)>> = None;
    for (opi, stage) in &b.observes {
        let Some(step) = r.steps.get(*opi) else { continue };
        if step.replies.len() < 10 {
            continue;
        }
        reads += step.replies.len();
        let (ans, errors) = answers(step);
        outcomes.insert(format!("{:?}", ans.iter().map(|a| &a.1).collect::<Vec<_>>()));
        if before.is_none() {
            // the state before compaction; where it already disagrees with the stored events
            // the defect is not compaction's (C02 / C04) and the query is not judged here
            before = Some(ans);
            continue;
        }
        for e in &errors {
            out.push(mk(stage, format!("error: {e}"), "read-error"));
        }
        let bf = before.as_ref().unwrap();
        for (i, (label, got, want)) in ans.iter().enumerate() {
            if bf[i].1 != bf[i].2 {
                continue; // pre-state already wrong: not judged
            }
            if *got != bf[i].1 {
                let more = if label.starts_with("COUNT") { got[0] > want[0] } else { got.len() > want.len() };
                let tag = match (label.starts_with("COUNT"), more) {
                    (true, true) => "count-high",
                    (true, false) => "count-low",
                    (false, true) => "dup-rows",
                    (false, false) => "lost-rows",
                };
                out.push(mk(stage, format!("{label}: before compaction {:?} (= stored events), now {got:?}", bf[i].1), tag));
            }
        }
    }
    (out, reads, outcomes)
}

pub fn check(tier: &str) -> i32 {
    let t0 = std::time::Instant::now();
    let kf = crate::known::load();
    let scratch = Scratch::new("c05");
    let mut pops: Vec<Pop> = Vec::new();
    let ks: Vec<usize> = vec![2, 3];
    let ns: Vec<usize> = if tier == "quick" { vec![3, 4] } else { vec![3, 4, 5] };
    for k in &ks {
        for n in &ns {
            let total = 3usize.pow(*n as u32);
            for code in 0..total {
                let mut segs = Vec::new();
                let mut c = code;
                for _ in 0..*n {
                    segs.push((c % 3) as u8 + 1);
                    c /= 3;
                }
                if tier == "quick" && *n == 4 && code % 3 != 0 {
                    continue;
                }
                pops.push(Pop { cfg: SysConfig { fill_factor: 8, event_per_zone: 2, segments_per_merge: *k, ..Default::default() }, segs, rounds: 3 });
            }
        }
    }
    if tier != "quick" {
        // zone size 1
        for code in 0..27usize {
            let mut segs = Vec::new();
            let mut c = code;
            for _ in 0..3 {
                segs.push((c % 3) as u8 + 1);
                c /= 3;
            }
            pops.push(Pop { cfg: SysConfig { fill_factor: 16, event_per_zone: 1, segments_per_merge: 2, ..Default::default() }, segs, rounds: 4 });
        }
    }
    // (a) default schedule
    let res_a = par_map(&pops, threads(), |i, p| run(&scratch.dir.join(format!("a{i}")), p, None));
    let mut findings: Vec<Finding> = Vec::new();
    let mut reads = 0usize;
    let mut outcomes: BTreeSet<String> = BTreeSet::new();
    let mut machinery: Vec<String> = Vec::new();
    let mut sched: Vec<(usize, (String, usize, u64, usize))> = Vec::new();
    let mut live_shapes: BTreeSet<String> = BTreeSet::new();
    for (i, r) in res_a.iter().enumerate() {
        match r {
            Err(e) => machinery.push(e.clone()),
            Ok((b, jr)) => {
                let (f, n, oc) = judge(&pops[i], None, b, jr);
                findings.extend(f);
                reads += n;
                outcomes.extend(oc);
                for st in &jr.steps {
                    live_shapes.insert(format!("{:?}", st.live));
                }
                // (b) gates of the first compaction round, for a subset of populations
                if i % (if tier == "quick" { 9 } else { 3 }) == 0 {
                    let first_compact = b.ops.iter().position(|o| matches!(o, Op::CompactAll)).unwrap_or(usize::MAX);
                    let mut seen: BTreeMap<(String, usize, u64), usize> = BTreeMap::new();
                    for g in jr.gates.iter().filter(|g| g.op == first_compact && (g.gate.starts_with("compact.") || g.gate.starts_with("zone."))) {
                        let n = seen.entry((g.gate.clone(), g.shard, g.seg)).or_insert(0);
                        sched.push((i, (g.gate.clone(), g.shard, g.seg, *n)));
                        *n += 1;
                    }
                }
            }
        }
    }
    let res_b = par_map(&sched, threads(), |j, (i, g)| run(&scratch.dir.join(format!("b{j}")), &pops[*i], Some(g)));
    let mut held = 0usize;
    for (j, r) in res_b.iter().enumerate() {
        match r {
            Err(e) => machinery.push(e.clone()),
            Ok((b, jr)) => {
                if jr.gates.iter().any(|g| g.parked) {
                    held += 1;
                } else {
                    machinery.push(format!("trap never hit: {:?}", sched[j].1));
                }
                let (f, n, oc) = judge(&pops[sched[j].0], Some(&sched[j].1), b, jr);
                findings.extend(f);
                reads += n;
                outcomes.extend(oc);
            }
        }
    }
    // (d) clean restart after the rounds
    let pops_d: Vec<&Pop> = pops.iter().enumerate().filter(|(i, _)| tier != "quick" || i % 4 == 0).map(|(_, p)| p).collect();
    let res_d = par_map(&pops_d, threads(), |i, p| run_restart(&scratch.dir.join(format!("d{i}")), p));
    for (i, r) in res_d.iter().enumerate() {
        match r {
            Err(e) => machinery.push(e.clone()),
            Ok((b, jr)) => {
                let (f, n, oc) = judge(pops_d[i], None, b, jr);
                findings.extend(f);
                reads += n;
                outcomes.extend(oc);
            }
        }
    }
    // (e) flush / compaction interleavings
    let race_pops: Vec<Pop> = {
        let shapes: Vec<Vec<u8>> = if tier == "quick" { vec![vec![1, 1], vec![3, 1, 3]] } else { vec![vec![1, 1], vec![3, 3], vec![3, 1, 3], vec![1, 2, 3], vec![1, 1, 1, 1]] };
        let ks: Vec<usize> = if tier == "quick" { vec![2] } else { vec![2, 3] };
        ks.iter().flat_map(|k| shapes.iter().map(move |sg| Pop { cfg: SysConfig { fill_factor: 3, event_per_zone: 2, segments_per_merge: *k, ..Default::default() }, segs: sg.clone(), rounds: 1 })).collect()
    };
    let mut races: Vec<Race> = Vec::new();
    let rec: Vec<Race> = race_pops.iter().flat_map(|p| [true, false].into_iter().map(move |m| Race { pop: p.clone(), compaction_held: m, park: None })).collect();
    let rec_res = par_map(&rec, threads(), |i, r| run_race(&scratch.dir.join(format!("er{i}")), r));
    let mut race_failing: Vec<(String, String, String)> = Vec::new();
    for (i, rr) in rec_res.iter().enumerate() {
        match rr {
            Err(e) => machinery.push(e.clone()),
            Ok((b, jr)) => {
                let (f, n) = judge_race(&rec[i], b, jr);
                race_failing.extend(f);
                reads += n;
                // gates of the activity that will be held
                let mut seen: BTreeMap<(String, usize, u64), usize> = BTreeMap::new();
                for g in jr[0].gates.iter() {
                    let in_compaction = g.op == b.compact_op && (g.gate.starts_with("compact.") || g.gate.starts_with("zone."));
                    let in_flush = g.op >= b.flush_ops.0 && g.op < b.flush_ops.1 && (g.gate.starts_with("flush.") || g.gate.starts_with("zone."));
                    if (rec[i].compaction_held && in_compaction) || (!rec[i].compaction_held && in_flush) {
                        let n = seen.entry((g.gate.clone(), g.shard, g.seg)).or_insert(0);
                        races.push(Race { pop: rec[i].pop.clone(), compaction_held: rec[i].compaction_held, park: Some((g.gate.clone(), g.shard, g.seg, *n)) });
                        *n += 1;
                    }
                }
            }
        }
    }
    if tier == "quick" {
        // every second gate point
        let mut i = 0;
        races.retain(|_| {
            i += 1;
            i % 2 == 0
        });
    }
    let race_res = par_map(&races, threads(), |i, r| run_race(&scratch.dir.join(format!("e{i}")), r));
    let mut race_held = 0usize;
    for (i, rr) in race_res.iter().enumerate() {
        match rr {
            Err(e) => machinery.push(e.clone()),
            Ok((b, jr)) => {
                if jr[0].gates.iter().any(|g| g.parked) {
                    race_held += 1;
                } else {
                    machinery.push(format!("race trap never hit: {:?}", races[i].park));
                }
                let (f, n) = judge_race(&races[i], b, jr);
                race_failing.extend(f);
                reads += n;
            }
        }
    }
    // (c) crash points of compaction rounds, via the C01 machinery
    use Tok::*;
    let crash_hist: Vec<Vec<Tok>> = vec![
        vec![Fill, Fill, Compact],
        vec![Sa, Sb, Flush, Sa, Sb, Flush, Compact],
        vec![Sa, Flush, Sb, Flush, Sa, Sb, Flush, Compact],
        vec![Fill, Fill, Compact, Fill, Fill, Compact],
        vec![Fill, Fill, Sb, Sa, Flush, Compact],
        vec![Sb, Flush, Fill, Fill, Compact],
        vec![Fill, Fill, Compact, Compact, Fill, Fill, Compact],
    ];
    let memo = Mutex::new(HashSet::new());
    let stats = Mutex::new(c01::Stats::default());
    let mon = Mutex::new(Vec::new());
    let ccfgs = vec![SysConfig::default(), SysConfig { segments_per_merge: 3, ..Default::default() }];
    let cwork: Vec<(SysConfig, Vec<Tok>)> = ccfgs.iter().flat_map(|c| crash_hist.iter().map(move |h| (c.clone(), h.clone()))).collect();
    let cres = par_map(&cwork, threads(), |i, (c, h)| {
        let d = scratch.dir.join(format!("c{i}"));
        let f = c01::run_history(&d, h, c, if tier == "quick" { SnapMode::Coarse } else { SnapMode::Fine }, &memo, &stats, &mon);
        let _ = std::fs::remove_dir_all(&d);
        f
    });
    let cst = stats.lock().unwrap();
    machinery.extend(cst.machinery.iter().cloned());
    if !machinery.is_empty() {
        for m in machinery.iter().take(5) {
            eprintln!("MACHINERY: {m}");
        }
        return 2;
    }
    let mut crash_known: BTreeMap<String, usize> = BTreeMap::new();
    let mut crash_viol: Vec<&c01::Finding> = Vec::new();
    for f in cres.iter().flatten() {
        if f.violation.is_some() || f.known.is_empty() || !f.known.iter().all(|t| kf.is_known("C05", t)) {
            crash_viol.push(f);
        } else {
            for t in &f.known {
                *crash_known.entry(t.clone()).or_insert(0) += 1;
            }
        }
    }
    // trust a crash failure only if it fails again, twice, in a replay of the same execution
    let (crash_viol, unreproduced) = c01::confirm(&crash_viol, &|f: &c01::Finding| {
        let i = cwork.iter().position(|(c, h)| *h == f.history && serde_json::to_string(c).ok() == serde_json::to_string(&f.cfg).ok()).unwrap_or(0);
        let d = scratch.dir.join(format!("c{i}"));
        let r = c01::run_history(&d, &f.history, &f.cfg, if tier == "quick" { SnapMode::Coarse } else { SnapMode::Fine }, &Mutex::new(HashSet::new()), &Mutex::new(c01::Stats::default()), &Mutex::new(Vec::new()));
        let _ = std::fs::remove_dir_all(&d);
        r
    });
    for f in unreproduced.iter().take(5) {
        eprintln!("UNREPRODUCED (not reported): crash {:?} {:?}: {:?}", f.history, f.crash.as_ref().map(|c| (&c.kind, &c.path)), f.violation);
    }
    // verdicts
    clear_replays("C05");
    // exact-case known findings for (a) and (b)
    let failing: Vec<crate::golden::Failing> = findings
        .iter()
        .map(|f| {
            let label = f.what.split(':').next().unwrap_or("").to_string();
            crate::golden::Failing {
                key: format!("segs={:?} k={} epz={} park={:?}|{}|{}", f.pop.segs, f.pop.cfg.segments_per_merge, f.pop.cfg.event_per_zone, f.park.as_ref().map(|p| (&p.0, p.2, p.3)), f.stage, label),
                digest: crate::golden::digest(&f.what),
                class: format!("{}{}", f.tag, if f.park.is_some() && f.stage.starts_with("held") { " (read while the compaction task is held at a gate)" } else { "" }),
                detail: json!({"finding": f}),
            }
        })
        .collect();
    let mut failing = failing;
    for (key, what, tag) in &race_failing {
        failing.push(crate::golden::Failing { key: key.clone(), digest: crate::golden::digest(what), class: format!("{tag} (flush and compaction interleaved)"), detail: json!({"case": key, "what": what}) });
    }
    let verdict = crate::golden::judge("C05", tier, &failing);
    let mut nv = crate::golden::report("C05", &verdict, &|c| kf.describe("C05", c.split(' ').next().unwrap_or("")), 5);
    for (t, n) in &crash_known {
        println!("KNOWN-FINDING: property=C05 {t}: {} [{n} crash points of compaction histories]", kf.describe("C05", t));
    }
    let mut shown = BTreeSet::new();
    for f in &crash_viol {
        let key: String = f.violation.clone().unwrap_or_default().chars().filter(|c| !c.is_ascii_digit()).collect();
        if !shown.insert(key) || shown.len() > 3 {
            continue;
        }
        nv += 1;
        let path = write_replay("C05", &json!({"property": "C05", "crash_finding": f}));
        println!("VIOLATION property=C05 replay={path}");
        eprintln!("  crash {:?} {:?}: {:?}", f.history, f.crash, f.violation);
    }
    write_evidence(&Evidence {
        property_id: "C05".into(),
        tier: tier.into(),
        seed: seed(),
        level: "model_checking".into(),
        coverage: json!({
            "states": live_shapes.len() + held,
            "transitions": reads,
            "traces_validated_against_impl": pops.len() + sched.len() + pops_d.len() + cst.histories + cst.recoveries,
            "populations_followed_through_a_clean_restart": pops_d.len(),
            "flush_compaction_interleavings": races.len(),
            "interleavings_in_which_the_trap_was_hit": race_held,
            "samples": pops.iter().step_by((pops.len() / 6).max(1)).take(6).map(|p| json!({"types_per_segment": p.segs, "segments_per_merge": p.cfg.segments_per_merge, "rounds": p.rounds})).collect::<Vec<_>>(),
            "segment_populations": pops.len(),
            "distinct_live_list_shapes": live_shapes.len(),
            "compaction_gate_schedules": sched.len(),
            "schedules_in_which_the_trap_was_hit": held,
            "crash_histories": cwork.len(),
            "crash_recovery_runs": cst.recoveries,
            "read_commands_judged": reads,
            "distinct_outcomes": outcomes.len(),
            "exhaustive": tier != "quick",
            "explanation": "(a) every assignment of {a, b, a+b} to n L0 segments (two rows per present type, one per context) x fan-in k in {2,3}, three compaction rounds (forced leftover merges and level cascades included), observation suite after every round compared with the stored events; (b) for a subset, the compaction task is held at every gate of its first round (inside the zone writer, after the output is written, after the index swap, after the batch commit, before reclaim) while the suite is read, then released; (c) crash at every FS-mutation boundary of compaction histories with recovery judged by the C01 oracle; (d) populations followed through a clean shutdown and a fresh process; (e) flush and compaction interleaved: the compaction round is held at each of its gates while capacity STOREs trigger a flush, and a flush is held at each of its gates while a compaction round is started; reads while held, after both finished and after a clean restart",
        }),
        assumptions: vec!["compaction is triggered through the real CompactionWorker with the shard's own live list and flush lock (body of the background loop without sleep and pressure probes)".into(), "reads use typed REPLAY and a type-private COUNT predicate (wildcard REPLAY and the aggregate type leak are reported under C04 / C09)".into()],
        wall_s: t0.elapsed().as_secs_f64(),
        violations: nv,
    });
    if nv == 0 { 0 } else { 1 }
}
