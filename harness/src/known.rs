//! Known findings: committed in /verif/known_findings.json, never written at run time.
use serde::Deserialize;

#[derive(Debug, Deserialize, Clone)]
pub struct Entry {
    pub property: String,
    pub tag: String,
    pub status: String,
    pub what: String,
    #[serde(default)]
    pub commit: Option<String>,
}

#[derive(Debug, Default)]
pub struct Known {
    pub entries: Vec<Entry>,
}

pub fn load() -> Known {
    let p = std::env::var("VERIF_KNOWN").unwrap_or_else(|_| "/verif/known_findings.json".into());
    match std::fs::read_to_string(&p) {
        Ok(t) => Known { entries: serde_json::from_str(&t).expect("known_findings.json is malformed") },
        Err(_) => Known::default(),
    }
}

impl Known {
    /// a `fixed` entry suppresses nothing
    pub fn is_known(&self, prop: &str, tag: &str) -> bool {
        self.entries.iter().any(|e| e.property == prop && e.tag == tag && e.status == "known")
    }
    pub fn describe(&self, prop: &str, tag: &str) -> String {
        self.entries.iter().find(|e| e.property == prop && e.tag == tag).map(|e| e.what.clone()).unwrap_or_default()
    }
}
