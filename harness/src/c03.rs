//! C03 — reads see every applied write exactly once at every stage of its flush.
//! schedx: for every gate (named step boundary) of every rotation of a history,
//! the flush task is parked there while a second client keeps storing and
//! reading; deviation bound 1 (quick) / 2 (thorough: a queued rotation is parked
//! at each of its gates after the first one was resumed).
use crate::job::{GateHit, Job, JobResult, Op};
use crate::lab::*;
use crate::sys::SysConfig;
use serde::{Deserialize, Serialize};
use serde_json::json;
use std::collections::{BTreeMap, BTreeSet};

const TYPES: [&str; 2] = ["a", "b"];
const CTXS: [&str; 2] = ["c0", "c1"];

fn ev(k: i64, cap: usize) -> Ev {
    if cap >= 4 {
        // memtables of four or more events: one context receives a, b, a within one generation
        // (it returns to its first event type after another one), the fourth event goes elsewhere
        match k % 4 {
            0 | 2 => Ev { k, typ: "a".into(), ctx: "c0".into() },
            1 => Ev { k, typ: "b".into(), ctx: "c0".into() },
            _ => Ev { k, typ: "b".into(), ctx: "c1".into() },
        }
    } else if k % 2 == 0 {
        // alternate types/contexts so that one rotation carries both types
        Ev { k, typ: "a".into(), ctx: "c0".into() }
    } else {
        Ev { k, typ: "b".into(), ctx: "c1".into() }
    }
}

/// LIMIT used by the bounded reads of a type of which `n` events are applied: (exactly n, one less)
fn limits(n: usize) -> (usize, usize) {
    (n.max(1), n.saturating_sub(1).max(1))
}

fn read_suite(acked: &[Ev]) -> Vec<String> {
    let mut q = suite(&TYPES, &CTXS);
    q.push("QUERY a WHERE k >= 1".into());
    q.push("QUERY b WHERE k >= 1".into());
    // the NOT path enumerates zones differently (complement over the plan's segment list)
    q.push("QUERY a WHERE NOT k = -1".into());
    q.push("QUERY b WHERE NOT k = -1".into());
    // bounded reads: a LIMIT equal to (one less than) the number of applied events makes the
    // per-source accounting of memtable, passive buffers and segments observable
    for t in TYPES {
        let n = acked.iter().filter(|e| e.typ == t).count();
        let (full, less) = limits(n);
        q.push(format!("QUERY {t} LIMIT {full}"));
        q.push(format!("QUERY {t} LIMIT {less}"));
    }
    // ordered reads: rows of the active memtable, of rotated buffers and of segments have to be merged
    // into one order at every stage (slots 14, 15)
    q.push("QUERY a ORDER BY k DESC".into());
    q.push("QUERY b ORDER BY k".into());
    q
}

#[derive(Debug, Clone, Serialize, Deserialize)]
pub struct Schedule {
    pub cfg: SysConfig,
    /// completed rotations (+ optional compaction) before the rotation under test
    pub prefix_fills: usize,
    pub prefix_compact: bool,
    /// trap 1: (gate, shard, seg, nth)
    pub park1: Option<(String, usize, u64, usize)>,
    /// trap 2, armed together with trap 1 (hits only after trap 1 was resumed)
    pub park2: Option<(String, usize, u64, usize)>,
    /// STOREs issued while parked
    pub extra: usize,
    /// after everything has completed: one more rotation (capacity STOREs), optionally held at a gate
    #[serde(default)]
    pub tail: bool,
    #[serde(default)]
    pub tail_park: Option<(String, usize, u64, usize)>,
}

struct Built {
    ops: Vec<Op>,
    /// op index of each Observe -> events acknowledged before it
    observes: Vec<(usize, Vec<Ev>, &'static str)>,
    /// events stored by the triggering rotation (op index range)
    trigger_op: usize,
    /// first op of the tail rotation (usize::MAX without a tail)
    tail_op: usize,
}

fn build(s: &Schedule) -> Built {
    let cap = s.cfg.capacity();
    let mut ops = vec![Op::Cmd { text: define_cmd("a") }, Op::Cmd { text: define_cmd("b") }];
    let mut acked: Vec<Ev> = Vec::new();
    let mut k = 0i64;
    let mut observes = Vec::new();
    for _ in 0..s.prefix_fills {
        for _ in 0..cap {
            let e = ev(k, cap);
            k += 1;
            ops.push(Op::Cmd { text: e.store_cmd() });
            acked.push(e);
        }
    }
    if s.prefix_compact {
        ops.push(Op::CompactAll);
    }
    observes.push((ops.len(), acked.clone(), "before"));
    ops.push(Op::Observe { queries: read_suite(&acked) });
    for p in [&s.park1, &s.park2].into_iter().flatten() {
        ops.push(Op::Park { gate: p.0.clone(), shard: p.1, seg: Some(p.2), nth: p.3 });
    }
    // the rotation under test: cap STOREs, the last one fills the memtable
    let mut trigger_op = 0;
    for i in 0..cap {
        let e = ev(k, cap);
        k += 1;
        trigger_op = ops.len();
        // quiescence after the STORE that triggers the rotation: the flush task must have
        // reached its parking gate before the first read, otherwise the read races with
        // the un-gated interior of a step (timing dependent, see DESIGN §8)
        let _ = i;
        ops.push(Op::Cmd { text: e.store_cmd() });
        acked.push(e);
    }
    observes.push((ops.len(), acked.clone(), "parked"));
    ops.push(Op::Observe { queries: read_suite(&acked) });
    // the same reads, all in flight at once: readers overlap on the rotated buffer
    ops.push(Op::Park { gate: "read.passive_locked".into(), shard: 0, seg: None, nth: 0 });
    observes.push((ops.len(), acked.clone(), "parked, overlapping reads"));
    ops.push(Op::ObservePar { queries: read_suite(&acked) });
    for _ in 0..s.extra {
        let e = ev(k, cap);
        k += 1;
        // while a flush task is parked, further rotations only queue behind it: no barrier
        // between the ack and the read (read-your-writes through the FIFO mailbox); in the
        // default schedule every op runs to quiescence
        ops.push(if s.park1.is_some() { Op::CmdNb { text: e.store_cmd() } } else { Op::Cmd { text: e.store_cmd() } });
        acked.push(e);
        observes.push((ops.len(), acked.clone(), "parked+store"));
        ops.push(Op::Observe { queries: read_suite(&acked) });
    }
    if s.park1.is_some() {
        ops.push(Op::Resume);
        observes.push((ops.len(), acked.clone(), if s.park2.is_some() { "second-park" } else { "resumed" }));
        ops.push(Op::Observe { queries: read_suite(&acked) });
    }
    if s.park2.is_some() {
        ops.push(Op::Resume);
        observes.push((ops.len(), acked.clone(), "resumed"));
        ops.push(Op::Observe { queries: read_suite(&acked) });
    }
    ops.push(Op::Barrier);
    observes.push((ops.len(), acked.clone(), "final"));
    ops.push(Op::Observe { queries: read_suite(&acked) });
    let mut tail_op = usize::MAX;
    if s.tail {
        if let Some(p) = &s.tail_park {
            ops.push(Op::Park { gate: p.0.clone(), shard: p.1, seg: Some(p.2), nth: p.3 });
        }
        tail_op = ops.len();
        for _ in 0..cap {
            let e = ev(k, cap);
            k += 1;
            ops.push(Op::Cmd { text: e.store_cmd() });
            acked.push(e);
        }
        observes.push((ops.len(), acked.clone(), if s.tail_park.is_some() { "tail rotation held" } else { "tail rotation done" }));
        ops.push(Op::Observe { queries: read_suite(&acked) });
        if s.tail_park.is_some() {
            ops.push(Op::Resume);
            ops.push(Op::Barrier);
            observes.push((ops.len(), acked.clone(), "tail rotation released"));
            ops.push(Op::Observe { queries: read_suite(&acked) });
        }
    }
    Built { ops, observes, trigger_op, tail_op }
}

fn run(dir: &std::path::Path, s: &Schedule) -> Result<(Built, JobResult), String> {
    let b = build(s);
    let job = Job {
        root: dir.join("db").to_string_lossy().into_owned(),
        cfg: s.cfg.clone(),
        entropy: 5,
        clock_ms: BASE_CLOCK_MS,
        clock_step_ms: 1000,
        ops: b.ops.clone(),
        ..Default::default()
    };
    let r = crate::explore::run_child(&job, &dir.join("job.json"))?;
    let _ = std::fs::remove_dir_all(dir);
    if let Some(e) = &r.error {
        return Err(format!("engine error: {e}"));
    }
    Ok((b, r))
}

#[derive(Debug, Clone, Serialize)]
struct Finding {
    schedule: Schedule,
    stage: String,
    what: String,
    known: Option<String>,
}

/// What the two listed defects allow at one read, derived from the gate log up to
/// that read and the rotation arithmetic (harness-observed schedule facts only).
struct Allowance {
    /// events that must be visible whatever happens (in the active memtable or in a passive buffer)
    must: BTreeSet<i64>,
    /// a queued / half-written in-flight segment exists: events that live only in segments may be missing
    hide_active: bool,
    /// per type: extra rows the COUNT defect may / must add
    dbl_lo: BTreeMap<String, usize>,
    dbl_hi: BTreeMap<String, usize>,
    /// (shard, segment id) -> keys of the events that rotation carries
    seg_events: BTreeMap<(usize, u64), BTreeSet<i64>>,
    /// every rotation queued so far has passed both of the flush task's last two gates
    all_done: bool,
}

fn allowance(s: &Schedule, gates: &[GateHit], upto_op: usize, acked: &[Ev]) -> Allowance {
    let route = crate::c01::route_of(&s.cfg);
    let cap = s.cfg.capacity();
    let mut per_shard: BTreeMap<usize, Vec<Ev>> = BTreeMap::new();
    for e in acked {
        per_shard.entry(*route.get(&e.ctx).unwrap_or(&0)).or_default().push(e.clone());
    }
    let mut a = Allowance { must: BTreeSet::new(), hide_active: false, dbl_lo: BTreeMap::new(), dbl_hi: BTreeMap::new(), seg_events: BTreeMap::new(), all_done: true };
    for (shard, evs) in &per_shard {
        let q = evs.len() / cap; // rotations queued so far on this shard
        // rotation j <-> j-th flush.queued hit on this shard
        let mut segs: Vec<u64> = Vec::new();
        for g in gates.iter().filter(|g| g.op <= upto_op && g.shard == *shard && g.gate == "flush.queued") {
            if !segs.contains(&g.seg) {
                segs.push(g.seg);
            }
        }
        let reached = |seg: u64, names: &[&str]| gates.iter().any(|g| g.op <= upto_op && g.shard == *shard && g.seg == seg && names.contains(&g.gate.as_str()));
        for e in evs.iter().skip(q * cap) {
            a.must.insert(e.k);
        }
        for j in 0..q {
            let slice: Vec<&Ev> = evs.iter().skip(j * cap).take(cap).collect();
            let seg = segs.get(j).copied();
            if let Some(sg) = seg {
                a.seg_events.entry((*shard, sg)).or_default().extend(slice.iter().map(|e| e.k));
            }
            let readable = seg.map_or(false, |sg| reached(sg, &["flush.index_saved"]));
            let cols = seg.map_or(false, |sg| reached(sg, &["zone.columns_written"]));
            let cleared = seg.map_or(false, |sg| reached(sg, &["flush.passive_cleared"]));
            if !(cleared && seg.map_or(false, |sg| reached(sg, &["flush.published"]))) {
                a.all_done = false;
            }
            if !readable {
                a.hide_active = true;
            }
            if !cleared {
                for e in &slice {
                    a.must.insert(e.k);
                }
                if cols {
                    for t in TYPES {
                        let n = slice.iter().filter(|e| e.typ == t).count();
                        *a.dbl_hi.entry(t.to_string()).or_insert(0) += n;
                        if readable {
                            *a.dbl_lo.entry(t.to_string()).or_insert(0) += n;
                        }
                    }
                }
            }
        }
    }
    a
}

fn judge(s: &Schedule, b: &Built, r: &JobResult) -> (Vec<Finding>, usize, BTreeSet<String>) {
    let mut out = Vec::new();
    let mut reads = 0;
    let mut outcomes = BTreeSet::new();
    for (opi, acked, stage) in &b.observes {
        let Some(step) = r.steps.get(*opi) else { continue };
        if step.blocked {
            out.push(Finding { schedule: s.clone(), stage: stage.to_string(), what: "read blocked (no answer within the virtual horizon)".into(), known: None });
            continue;
        }
        let o = parse_obs(&step.replies[..6], &TYPES, &CTXS);
        reads += step.replies.len();
        outcomes.insert(format!("{:?}|{:?}", o.query, o.count));
        for e in &o.errors {
            out.push(Finding { schedule: s.clone(), stage: stage.to_string(), what: format!("error: {e}"), known: None });
        }
        let al = allowance(s, &r.gates, *opi, acked);
        // a selection answer: exact, or (listed defect) a subset that keeps every in-memory event
        let sel_verdict = |got: &Vec<i64>, want: &Vec<i64>| -> Option<Option<String>> {
            if got == want {
                return None;
            }
            let subset = got.iter().all(|k| want.contains(k)) && {
                let mut g = got.clone();
                g.dedup();
                g.len() == got.len()
            };
            let keeps_memory = want.iter().filter(|k| al.must.contains(k)).all(|k| got.contains(k));
            if al.hide_active && subset && keeps_memory {
                Some(Some("KF-inflight-hides-segments".to_string()))
            } else {
                Some(None)
            }
        };
        for (ti, t) in TYPES.iter().enumerate() {
            let mut want: Vec<i64> = acked.iter().filter(|e| e.typ == *t).map(|e| e.k).collect();
            want.sort();
            let got = o.query.get(*t).cloned().unwrap_or_default();
            if let Some(k) = sel_verdict(&got, &want) {
                out.push(Finding { schedule: s.clone(), stage: stage.to_string(), what: format!("QUERY {t} returned {got:?}, applied events are {want:?}"), known: k });
            }
            let rep = &step.replies[6 + ti];
            let mut gotf: Vec<i64> = rep.rows.iter().filter_map(|row| row.get("k").and_then(|v| v.as_i64())).collect();
            gotf.sort();
            let wantf: Vec<i64> = want.iter().copied().filter(|k| *k >= 1).collect();
            if let Some(k) = sel_verdict(&gotf, &wantf) {
                out.push(Finding { schedule: s.clone(), stage: stage.to_string(), what: format!("QUERY {t} WHERE k >= 1 returned {gotf:?}, expected {wantf:?}"), known: k });
            }
            let repn = &step.replies[8 + ti];
            let mut gotn: Vec<i64> = repn.rows.iter().filter_map(|row| row.get("k").and_then(|v| v.as_i64())).collect();
            gotn.sort();
            if let Some(mut k) = sel_verdict(&gotn, &want) {
                // listed: a read served while a flush is held inside the zone writer leaves stale
                // per-segment state behind; the NOT path (complement over the zones of the plan's
                // segments) then keeps missing exactly the events of that segment
                // (only after the held flush has completed, and only in the long-prefix histories in
                // which it was seen: a loss *while* the rotation is in flight is a different matter)
                if k.is_none() && s.prefix_fills >= 8 && (*stage == "resumed" || *stage == "final" || *stage == "second-park") {
                    for p in [&s.park1, &s.park2, &s.tail_park].into_iter().flatten() {
                        // seen with the task held at zone.*, flush.type_written and flush.index_saved
                        if p.0.starts_with("zone.") || p.0.starts_with("flush.") {
                            // the held rotation and the ones queued behind it on that shard
                            let evs: BTreeSet<i64> = al.seg_events.iter().filter(|((sh, sg), _)| *sh == p.1 && *sg >= p.2).flat_map(|(_, v)| v.iter().copied()).collect();
                            let missing: Vec<&i64> = want.iter().filter(|x| !gotn.contains(x)).collect();
                            let subset = gotn.iter().all(|x| want.contains(x));
                            if subset && !missing.is_empty() && missing.iter().all(|x| evs.contains(x)) {
                                k = Some("KF-not-path-stale-after-read-inside-zone-writer".to_string());
                            }
                        }
                    }
                }
                // the same finding shows in shorter histories, and without any held flush, once reads overlap
                // (the observation "parked, overlapping reads" issues the whole suite at once): listed when every
                // rotation queued so far has run through the flush task's last gates at the read, the reply is a subset of the applied events, and every
                // rotation that lost an event of this type lost all its events of this type (whole segments
                // missing from the complement, nothing else)
                if k.is_none() && !al.hide_active && al.all_done {
                    let missing: Vec<i64> = want.iter().filter(|x| !gotn.contains(x)).copied().collect();
                    let subset = gotn.iter().all(|x| want.contains(x));
                    let whole = !missing.is_empty()
                        && missing.iter().all(|m| al.seg_events.values().any(|evs| evs.contains(m)))
                        && al.seg_events.values().all(|evs| {
                            let of_type: Vec<&i64> = evs.iter().filter(|e| want.contains(e)).collect();
                            let lost = of_type.iter().filter(|e| missing.contains(e)).count();
                            lost == 0 || lost == of_type.len()
                        });
                    if subset && whole {
                        k = Some("KF-not-path-stale-after-read-inside-zone-writer".to_string());
                    }
                }
                out.push(Finding { schedule: s.clone(), stage: stage.to_string(), what: format!("QUERY {t} WHERE NOT k = -1 returned {gotn:?}, applied events are {want:?}"), known: k });
            }
            // ordered read of this type: the returned keys are in the requested order (membership is judged
            // by the unordered reads above)
            if let Some(repo) = step.replies.get(14 + ti) {
                let ks: Vec<i64> = repo.rows.iter().filter_map(|row| row.get("k").and_then(|v| v.as_i64())).collect();
                let desc = ti == 0;
                let sorted = ks.windows(2).all(|w| if desc { w[0] >= w[1] } else { w[0] <= w[1] });
                if !sorted {
                    out.push(Finding { schedule: s.clone(), stage: stage.to_string(), what: format!("QUERY {t} ORDER BY k{} returned keys in the order {ks:?}", if desc { " DESC" } else { "" }), known: None });
                }
            }
            let (full, less) = limits(want.len());
            for (slot, lim) in [(10 + 2 * ti, full), (11 + 2 * ti, less)] {
                let Some(repl) = step.replies.get(slot) else { continue };
                let mut gotl: Vec<i64> = repl.rows.iter().filter_map(|row| row.get("k").and_then(|v| v.as_i64())).collect();
                gotl.sort();
                if lim >= want.len() {
                    if let Some(k) = sel_verdict(&gotl, &want) {
                        out.push(Finding { schedule: s.clone(), stage: stage.to_string(), what: format!("QUERY {t} LIMIT {lim} returned {gotl:?}, applied events are {want:?}"), known: k });
                    }
                } else {
                    // exactly `lim` distinct applied events
                    let mut d = gotl.clone();
                    d.dedup();
                    let fine = d.len() == gotl.len() && gotl.iter().all(|k| want.contains(k)) && gotl.len() == lim;
                    if !fine {
                        // the listed hiding defect can leave fewer than `lim` rows visible
                        let must_t = want.iter().filter(|k| al.must.contains(k)).count();
                        let known = if al.hide_active && d.len() == gotl.len() && gotl.iter().all(|k| want.contains(k)) && gotl.len() >= lim.min(must_t) && gotl.len() <= lim { Some("KF-inflight-hides-segments".to_string()) } else { None };
                        out.push(Finding { schedule: s.clone(), stage: stage.to_string(), what: format!("QUERY {t} LIMIT {lim} returned {gotl:?}; {} events of that type are applied: {want:?}", want.len()), known });
                    }
                }
            }
            let c = o.count.get(*t).copied().unwrap_or(0) as usize;
            if c != want.len() {
                let must_t = want.iter().filter(|k| al.must.contains(k)).count();
                let base_lo = if al.hide_active { must_t } else { want.len() };
                let lo = base_lo + if al.hide_active { 0 } else { al.dbl_lo.get(*t).copied().unwrap_or(0) };
                let hi = want.len() + al.dbl_hi.get(*t).copied().unwrap_or(0);
                let known = if c >= lo && c <= hi {
                    Some(if c > want.len() { "KF-P3-count-doubles-mid-flush".to_string() } else { "KF-inflight-hides-segments".to_string() })
                } else {
                    None
                };
                out.push(Finding { schedule: s.clone(), stage: stage.to_string(), what: format!("COUNT {t} = {c} while {} events of that type are applied (the listed defects allow {lo}..={hi})", want.len()), known });
            }
            let cx = CTXS[ti];
            let mut wr: Vec<i64> = acked.iter().filter(|e| e.ctx == cx && e.typ == *t).map(|e| e.k).collect();
            wr.sort();
            let mut gr: Vec<i64> = o.replay.get(cx).map(|v| v.iter().map(|x| x.1).collect()).unwrap_or_default();
            gr.sort();
            if let Some(k) = sel_verdict(&gr, &wr) {
                out.push(Finding { schedule: s.clone(), stage: stage.to_string(), what: format!("REPLAY {t} FOR {cx} returned {gr:?}, applied {wr:?}"), known: k });
            }
        }
    }
    let _ = b.trigger_op;
    (out, reads, outcomes)
}

pub fn check(tier: &str) -> i32 {
    let t0 = std::time::Instant::now();
    let kf = crate::known::load();
    let scratch = Scratch::new("c03");
    let cfgs: Vec<SysConfig> = if tier == "quick" {
        vec![SysConfig { fill_factor: 1, event_per_zone: 2, ..Default::default() }, SysConfig { fill_factor: 2, event_per_zone: 1, shards: 2, ..Default::default() }, SysConfig { fill_factor: 2, event_per_zone: 2, ..Default::default() }]
    } else {
        vec![
            SysConfig { fill_factor: 1, event_per_zone: 2, ..Default::default() },
            SysConfig { fill_factor: 2, event_per_zone: 1, shards: 2, ..Default::default() },
            SysConfig { fill_factor: 2, event_per_zone: 2, segments_per_merge: 3, ..Default::default() },
        ]
    };
    let prefixes: Vec<(usize, bool)> = if tier == "quick" { vec![(0, false), (1, false), (2, true)] } else { vec![(0, false), (1, false), (2, false), (2, true), (3, true)] };
    // 1. recording runs (default schedule): the gates each history passes
    let mut bases: Vec<Schedule> = Vec::new();
    for cfg in &cfgs {
        for (pf, pc) in &prefixes {
            bases.push(Schedule { cfg: cfg.clone(), prefix_fills: *pf, prefix_compact: *pc, park1: None, park2: None, extra: 2 * cfg.capacity(), tail: false, tail_park: None });
        }
    }
    // released passive buffers are pruned on rotations whose segment id is a multiple of
    // max_inflight_passives / 2: histories in which the rotation under test is such a rotation and
    // two or four earlier flushes have completed (small cap so that short prefixes reach it)
    let small_cap = SysConfig { fill_factor: 1, event_per_zone: 2, max_inflight_passives: 4, ..Default::default() };
    for pf in if tier == "quick" { vec![2usize, 4] } else { vec![2usize, 3, 4, 6] } {
        bases.push(Schedule { cfg: small_cap.clone(), prefix_fills: pf, prefix_compact: false, park1: None, park2: None, extra: 2 * small_cap.capacity(), tail: false, tail_park: None });
    }
    if tier != "quick" {
        for pf in [4usize, 8] {
            bases.push(Schedule { cfg: cfgs[0].clone(), prefix_fills: pf, prefix_compact: false, park1: None, park2: None, extra: 2 * cfgs[0].capacity(), tail: false, tail_park: None });
        }
    }
    // tail rotation: after the rotation under test and the 1 or 2 rotations queued behind it have
    // all completed back to back (1, 2 or 3 released buffers at once), one more rotation follows
    for extra_rot in if tier == "quick" { vec![1usize, 2] } else { vec![0usize, 1, 2, 3] } {
        bases.push(Schedule { cfg: cfgs[0].clone(), prefix_fills: 0, prefix_compact: false, park1: None, park2: None, extra: extra_rot * cfgs[0].capacity(), tail: true, tail_park: None });
    }
    let rec = par_map(&bases, threads(), |i, s| run(&scratch.dir.join(format!("r{i}")), s));
    let mut schedules: Vec<Schedule> = Vec::new();
    let mut machinery = Vec::new();
    let mut all_findings: Vec<Finding> = Vec::new();
    let mut reads = 0usize;
    let mut outcomes: BTreeSet<String> = BTreeSet::new();
    let mut gate_points = 0usize;
    for (i, r) in rec.iter().enumerate() {
        match r {
            Err(e) => machinery.push(e.clone()),
            Ok((b, res)) => {
                let (f, n, oc) = judge(&bases[i], b, res);
                all_findings.extend(f);
                reads += n;
                outcomes.extend(oc);
                // gates hit from the triggering STORE on (rotations under test and the ones queued behind it)
                let mut seen: BTreeMap<(String, usize, u64), usize> = BTreeMap::new();
                let mut hits: Vec<(String, usize, u64, usize)> = Vec::new();
                for g in res.gates.iter().filter(|g| g.op >= b.trigger_op && g.op < b.tail_op && (g.gate.starts_with("flush.") || g.gate.starts_with("zone."))) {
                    let n = seen.entry((g.gate.clone(), g.shard, g.seg)).or_insert(0);
                    hits.push((g.gate.clone(), g.shard, g.seg, *n));
                    *n += 1;
                }
                // the first rotation under test = the first flush.queued at/after the trigger
                let first = hits.iter().find(|h| h.0 == "flush.queued").cloned();
                if bases[i].tail {
                    // hold the first rotation at its first gate (so that the rotations queue up back to
                    // back), release, then hold the tail rotation at each of its gates
                    let mut seen_t: BTreeMap<(String, usize, u64), usize> = BTreeMap::new();
                    for g in res.gates.iter().filter(|g| g.op >= b.tail_op && (g.gate.starts_with("flush.") || g.gate.starts_with("zone."))) {
                        let n = seen_t.entry((g.gate.clone(), g.shard, g.seg)).or_insert(0);
                        if let Some(f) = &first {
                            gate_points += 1;
                            schedules.push(Schedule { park1: Some(f.clone()), tail_park: Some((g.gate.clone(), g.shard, g.seg, *n)), ..bases[i].clone() });
                        }
                        *n += 1;
                    }
                    continue;
                }
                for h in &hits {
                    let is_first_rotation = first.as_ref().map_or(false, |f| f.1 == h.1 && f.2 == h.2);
                    if is_first_rotation {
                        gate_points += 1;
                        schedules.push(Schedule { park1: Some(h.clone()), ..bases[i].clone() });
                        if tier != "quick" {
                            // deviation 2: after resuming, park the next rotation (queued behind) at each of its gates
                            for h2 in hits.iter().filter(|h2| !(h2.1 == h.1 && h2.2 == h.2)) {
                                schedules.push(Schedule { park1: Some(h.clone()), park2: Some(h2.clone()), ..bases[i].clone() });
                            }
                        }
                    }
                }
            }
        }
    }
    // 2. every schedule with <= D deviations
    let res = par_map(&schedules, threads(), |i, s| run(&scratch.dir.join(format!("s{i}")), s));
    let mut parked_ok = 0usize;
    for (i, r) in res.iter().enumerate() {
        match r {
            Err(e) => machinery.push(format!("{:?}: {e}", schedules[i].park1)),
            Ok((b, jr)) => {
                if jr.gates.iter().any(|g| g.parked) {
                    parked_ok += 1;
                } else {
                    machinery.push(format!("trap never hit: {:?}", schedules[i].park1));
                }
                let (f, n, oc) = judge(&schedules[i], b, jr);
                all_findings.extend(f);
                reads += n;
                outcomes.extend(oc);
            }
        }
    }
    // determinism canary: first 8 schedules again
    let can: Vec<Schedule> = schedules.iter().take(8).cloned().collect();
    let c2 = par_map(&can, threads(), |i, s| run(&scratch.dir.join(format!("c{i}")), s));
    for (i, r) in c2.iter().enumerate() {
        if let (Ok((_, a)), Ok((_, b))) = (r, &res[i]) {
            let f = |x: &JobResult| serde_json::to_string(&x.steps.iter().map(|s| &s.replies).collect::<Vec<_>>()).unwrap();
            if f(a) != f(b) {
                let _ = std::fs::write("/verif/work/c03a.json", f(a));
                let _ = std::fs::write("/verif/work/c03b.json", f(b));
                eprintln!("MACHINERY: nondeterminism: schedule {:?} gave two different observation logs", can[i].park1);
                return 2;
            }
        }
    }
    if !machinery.is_empty() {
        for m in machinery.iter().take(5) {
            eprintln!("MACHINERY: {m}");
        }
        return 2;
    }
    clear_replays("C03");
    if let Ok(dump) = std::env::var("VERIF_DUMP") {
        let _ = std::fs::write(dump, serde_json::to_string(&all_findings).unwrap());
    }
    let mut known: BTreeMap<String, (usize, String)> = BTreeMap::new();
    let mut viol: Vec<&Finding> = Vec::new();
    for f in &all_findings {
        match &f.known {
            Some(t) if kf.is_known("C03", t) => {
                let e = known.entry(t.clone()).or_insert((0, format!("parked at {:?} stage {}: {}", f.schedule.park1.as_ref().map(|p| p.0.clone()), f.stage, f.what)));
                e.0 += 1;
            }
            _ => viol.push(f),
        }
    }
    for (t, (n, ex)) in &known {
        println!("KNOWN-FINDING: property=C03 {t}: {} [{n} reads, e.g. {ex}]", kf.describe("C03", t));
    }
    let mut shown = BTreeSet::new();
    for f in &viol {
        let key: String = f.what.chars().filter(|c| !c.is_ascii_digit()).take(50).collect();
        if !shown.insert(key) || shown.len() > 5 {
            continue;
        }
        let path = write_replay("C03", &json!({"property": "C03", "finding": f, "how": "verif c03replay <file>"}));
        println!("VIOLATION property=C03 replay={path}");
        eprintln!("  parked {:?}/{:?} prefix ({}, {}) stage {}: {}", f.schedule.park1, f.schedule.park2, f.schedule.prefix_fills, f.schedule.prefix_compact, f.stage, f.what);
    }
    write_evidence(&Evidence {
        property_id: "C03".into(),
        tier: tier.into(),
        seed: seed(),
        level: "model_checking".into(),
        coverage: json!({
            "states": gate_points + bases.len(),
            "transitions": reads,
            "traces_validated_against_impl": schedules.len() + bases.len(),
            "samples": schedules.iter().step_by((schedules.len() / 6).max(1)).take(6).map(|s| json!({"config": [s.cfg.shards, s.cfg.fill_factor, s.cfg.event_per_zone], "completed_rotations_before": s.prefix_fills, "compacted": s.prefix_compact, "park1": s.park1, "park2": s.park2, "stores_while_parked": s.extra})).collect::<Vec<_>>(),
            "schedules_executed": schedules.len(),
            "schedules_in_which_the_trap_was_hit": parked_ok,
            "gate_points": gate_points,
            "deviation_bound": if tier == "quick" { 1 } else { 2 },
            "read_commands_judged": reads,
            "distinct_outcomes": outcomes.len(),
            "exhaustive": true,
            "explanation": "states = (history, gate) points at which a flush task was held; for each, a second client stores 2*capacity more events (queueing further rotations behind the parked one) and runs the read suite {QUERY t, COUNT t, REPLAY t FOR c, QUERY t WHERE} after every STORE without a barrier, then resumes and reads again; every schedule with at most the stated number of deviations from run-to-quiescence is executed on the real engine",
        }),
        assumptions: vec![
            "switch points are the named gates (DESIGN §2.7); inside a step tokio's order is followed".into(),
            "COUNT is taken with a type-private predicate (the C09 type leak is reported under C09)".into(),
            "the listed COUNT defect is matched by a predictor: COUNT = |selection| + rows of flushes whose files exist while their passive buffer is still full (between type_written and passive_cleared)".into(),
        ],
        wall_s: t0.elapsed().as_secs_f64(),
        violations: viol.len() as i64,
    });
    if viol.is_empty() { 0 } else { 1 }
}


pub fn replay(path: &str) -> i32 {
    let v: serde_json::Value = serde_json::from_str(&std::fs::read_to_string(path).expect("replay file")).expect("json");
    let s: Schedule = serde_json::from_value(v["finding"]["schedule"].clone()).expect("schedule");
    let scratch = Scratch::new(&format!("c03replay-{}", std::process::id()));
    match run(&scratch.dir.join("x"), &s) {
        Ok((b, r)) => {
            let (f, n, _) = judge(&s, &b, &r);
            println!("schedule {:?} / {:?}: {} reads judged, {} discrepancies", s.park1, s.park2, n, f.len());
            for x in &f {
                println!("  stage {}: {} {}", x.stage, x.what, x.known.clone().map(|k| format!("[{k}]")).unwrap_or_default());
            }
            if f.iter().any(|x| x.known.is_none()) { 1 } else { 0 }
        }
        Err(e) => {
            eprintln!("{e}");
            2
        }
    }
}
