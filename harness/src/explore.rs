//! Parent-side plumbing: running jobs in child processes, work pools, evidence.
use crate::job::{Job, JobResult};
use std::path::{Path, PathBuf};

/// Scratch root. The engine hashes absolute paths (path-keyed caches), so the path
/// *string* it sees must not depend on where the bytes live: it is always
/// /verif/work, which is made a symlink to a tmpfs directory when one is available
/// (tens of thousands of small files are created, copied and removed per check).
/// Nothing a later command needs is kept there.
pub fn work_root() -> PathBuf {
    if let Ok(w) = std::env::var("VERIF_WORK") {
        return PathBuf::from(w);
    }
    let link = PathBuf::from("/verif/work");
    let shm = PathBuf::from("/dev/shm/verif-work");
    let is_link = std::fs::symlink_metadata(&link).map(|m| m.file_type().is_symlink()).unwrap_or(false);
    if is_link {
        // dangling after a reboot / fresh copy: recreate the target
        let _ = std::fs::create_dir_all(&shm);
        if link.is_dir() {
            return link;
        }
        let _ = std::fs::remove_file(&link);
    }
    // an empty real directory left by an earlier version is replaced by the link
    if link.is_dir() && !is_link && std::fs::read_dir(&link).map(|mut d| d.next().is_none()).unwrap_or(false) {
        let _ = std::fs::remove_dir(&link);
    }
    if !link.exists() && std::fs::create_dir_all(&shm).is_ok() && std::fs::write(shm.join(".probe"), b"x").is_ok() {
        if std::os::unix::fs::symlink(&shm, &link).is_ok() {
            return link;
        }
    }
    let _ = std::fs::create_dir_all(&link);
    link
}

/// Path of this executable; survives the binary being replaced by a rebuild while a
/// check is running (the kernel then reports "<path> (deleted)").
pub fn self_exe() -> PathBuf {
    let p = std::env::current_exe().unwrap_or_else(|_| PathBuf::from("/verif/target/debug/verif"));
    let s = p.to_string_lossy().into_owned();
    PathBuf::from(s.strip_suffix(" (deleted)").unwrap_or(&s).to_string())
}

/// Run one lifetime in a fresh child process.
pub fn run_child(job: &Job, job_file: &Path) -> Result<JobResult, String> {
    std::fs::create_dir_all(job_file.parent().unwrap()).map_err(|e| e.to_string())?;
    std::fs::write(job_file, serde_json::to_string(job).unwrap()).map_err(|e| e.to_string())?;
    let out = std::process::Command::new(self_exe())
        .arg("job")
        .arg(job_file)
        .env_remove("SNELDB_CONFIG")
        .env("RAYON_NUM_THREADS", "1")
        .output()
        .map_err(|e| e.to_string())?;
    if std::env::var("VERIF_CHILD_STDERR").is_ok() {
        // debugging aid
        eprintln!("{}", String::from_utf8_lossy(&out.stderr));
    }
    let res_path = format!("{}.out", job_file.display());
    let text = std::fs::read_to_string(&res_path).map_err(|e| {
        format!(
            "child produced no result ({e}); status {:?}; stderr: {}",
            out.status,
            String::from_utf8_lossy(&out.stderr).chars().take(2000).collect::<String>()
        )
    })?;
    let _ = std::fs::remove_file(&res_path);
    let _ = std::fs::remove_file(job_file);
    serde_json::from_str(&text).map_err(|e| format!("bad child result: {e}"))
}
