//! Parent-side plumbing: running jobs in child processes, work pools, evidence.
use crate::job::{Job, JobResult};
use std::path::{Path, PathBuf};

pub fn work_root() -> PathBuf {
    PathBuf::from(std::env::var("VERIF_WORK").unwrap_or_else(|_| "/verif/work".into()))
}

/// Run one lifetime in a fresh child process.
pub fn run_child(job: &Job, job_file: &Path) -> Result<JobResult, String> {
    std::fs::create_dir_all(job_file.parent().unwrap()).map_err(|e| e.to_string())?;
    std::fs::write(job_file, serde_json::to_string(job).unwrap()).map_err(|e| e.to_string())?;
    let exe = std::env::current_exe().map_err(|e| e.to_string())?;
    let out = std::process::Command::new(exe)
        .arg("job")
        .arg(job_file)
        .env_remove("SNELDB_CONFIG")
        .env("RAYON_NUM_THREADS", "1")
        .output()
        .map_err(|e| e.to_string())?;
    let res_path = format!("{}.out", job_file.display());
    let text = std::fs::read_to_string(&res_path).map_err(|e| {
        format!(
            "child produced no result ({e}); status {:?}; stderr: {}",
            out.status,
            String::from_utf8_lossy(&out.stderr).chars().take(2000).collect::<String>()
        )
    })?;
    let _ = std::fs::remove_file(&res_path);
    let _ = std::fs::remove_file(job_file);
    serde_json::from_str(&text).map_err(|e| format!("bad child result: {e}"))
}
