//! C07 — stored values come back unchanged from every storage tier; RETURN only
//! restricts payload columns. Product mode: value alphabet per type, all pairs
//! of alphabet positions sharing one zone, x tiers x RETURN lists.
use crate::decode::Reply;
use crate::prod::Layout;
use crate::prodcheck::{self, Judged, Spec};
use crate::refq::*;
use crate::sys::SysConfig;
use serde_json::{json, Map, Value};

pub fn schema() -> Schema {
    Schema {
        name: "v".into(),
        fields: vec![
            ("id".into(), FType::Int),
            ("s".into(), FType::Str),
            ("i".into(), FType::Int),
            ("u".into(), FType::U64),
            ("f".into(), FType::Float),
            ("b".into(), FType::Bool),
            ("e".into(), FType::Enum(vec!["x".into(), "y".into(), "z".into()])),
            ("o".into(), FType::OptInt),
            ("os".into(), FType::OptStr),
            ("d".into(), FType::Datetime),
        ],
    }
}

const ABSENT: &str = "\u{1}absent";

fn alphabets() -> Vec<(&'static str, Vec<Value>)> {
    let long: String = "long-é-".repeat(600);
    let s255: String = "x".repeat(255);
    let s256: String = "y".repeat(256);
    let s64k: String = "z".repeat(65536);
    vec![
        (
            "s",
            vec![
                json!(""), json!("a"), json!("é"), json!("null"), json!("true"), json!("123"), json!("1.5"), json!("[1,2]"), json!("{}"), json!(long), json!("q\"uo\nte\\"), json!("18446744073709551615"),
                // separators, control characters, length-prefix boundaries
                json!("a|b,c;d"), json!("tab\tsep\u{0}nul"), json!(s255), json!(s256), json!(s64k), json!(" lead and trail "),
            ],
        ),
        (
            "i",
            vec![
                json!(0), json!(1), json!(-1), json!(i64::MIN), json!(i64::MAX),
                // integers that do not survive a trip through f64 / f32 / i32
                json!((1i64 << 53) + 1), json!(-((1i64 << 53) + 1)), json!(1234567890123456789i64), json!(i64::MAX - 1), json!(i64::MIN + 1), json!(1i64 << 53), json!((1i64 << 31) + 1), json!(16777217),
            ],
        ),
        ("u", vec![json!(0), json!(9223372036854775808u64), json!(u64::MAX), json!(1), json!((1u64 << 53) + 1), json!((1u64 << 63) - 1), json!(u64::MAX - 1), json!(4294967297u64)]),
        ("f", vec![json!(0.0), json!(-0.0), json!(1.0), json!(1.5), json!(1e308), json!(5e-324), json!(-2.5), json!(0.1), json!(1.0 / 3.0), json!(16777217.0), json!(1e-7), json!(123456789.125), json!(-1e-300),
            // doubles whose shortest round-trip decimal needs 17 significant digits, at extreme magnitudes
            json!(1.2345678901234567e20), json!(f64::MAX), json!(2.2250738585072014e-308), json!(-1.2345678901234567e-5), json!(9007199254740993.0)]),
        ("b", vec![json!(true), json!(false)]),
        ("e", vec![json!("x"), json!("y"), json!("z")]),
        ("o", vec![json!(null), json!(ABSENT), json!(0), json!(-7), json!((1i64 << 53) + 1), json!(i64::MIN)]),
        ("os", vec![json!(null), json!(ABSENT), json!(""), json!("null"), json!("é")]),
        ("d", vec![json!(1700000000), json!("2023-11-14T22:13:20Z"), json!(1700000000000i64), json!("2023-11-14T23:13:20+01:00")]),
    ]
}

fn payload_at(idx: usize, id: i64) -> Map<String, Value> {
    let mut m = Map::new();
    m.insert("id".into(), json!(id));
    for (f, vals) in alphabets() {
        let v = vals[idx % vals.len()].clone();
        if v.as_str() == Some(ABSENT) {
            continue;
        }
        m.insert(f.to_string(), v);
    }
    m
}

pub fn datasets(tier: &str) -> Vec<(String, Vec<(usize, Row)>)> {
    let n = 18;
    let mut out = Vec::new();
    for i in 0..n {
        for j in (i + 1)..n {
            if tier == "quick" && (i * 7 + j) % 2 != 0 {
                continue;
            }
            let rows = vec![
                (0usize, Row { k: 1, ctx: "c0".into(), payload: payload_at(i, 1), ts: 0 }),
                (0usize, Row { k: 2, ctx: "c0".into(), payload: payload_at(j, 2), ts: 0 }),
                (0usize, Row { k: 3, ctx: "c1".into(), payload: payload_at(i + j, 3), ts: 0 }),
            ];
            out.push((format!("pair({i},{j})"), rows));
        }
    }
    // a long data set: every alphabet position several times, in zones that fill up (64 rows per zone
    // in the wide configuration), so that column blocks hold many rows of mixed widths
    let long: Vec<(usize, Row)> = (0..150).map(|r| (0usize, Row { k: r as i64 + 1, ctx: format!("c{}", r % 3), payload: payload_at((r * 7) % n, r as i64 + 1), ts: 0 })).collect();
    out.push(("cycle150".to_string(), long));
    out
}

fn num_eq(a: &Value, b: &Value) -> bool {
    let ai = a.as_i64().map(|x| x as i128).or(a.as_u64().map(|x| x as i128));
    let bi = b.as_i64().map(|x| x as i128).or(b.as_u64().map(|x| x as i128));
    match (ai, bi) {
        (Some(x), Some(y)) => x == y,
        _ => match (a.as_f64(), b.as_f64()) {
            (Some(x), Some(y)) => x == y,
            _ => false,
        },
    }
}

/// stored value vs returned value, per declared type
fn value_ok(ft: &FType, stored: Option<&Value>, got: Option<&Value>) -> Result<(), String> {
    let stored_null = stored.map_or(true, |v| v.is_null());
    let got_null = got.map_or(true, |v| v.is_null());
    if stored_null {
        return if got_null { Ok(()) } else { Err(format!("stored null/absent, got {}", got.unwrap())) };
    }
    let s = stored.unwrap();
    let Some(g) = got else { return Err(format!("stored {}, column missing", short(s))) };
    let ok = match ft {
        FType::Str | FType::OptStr | FType::Enum(_) => g.is_string() && g == s,
        FType::Bool => g.is_boolean() && g == s,
        FType::Int | FType::U64 | FType::Float | FType::OptInt => g.is_number() && num_eq(g, s),
        FType::Datetime | FType::Date => g.is_number() && g.as_i64() == instant_of(s, false),
    };
    if ok { Ok(()) } else { Err(format!("stored {} got {}", short(s), short(g))) }
}

fn short(v: &Value) -> String {
    let t = v.to_string();
    if t.len() > 60 { format!("{}...<{} bytes>", t.chars().take(30).collect::<String>(), t.len()) } else { t }
}

fn value_class(field: &str, stored: Option<&Value>) -> String {
    let kind = match stored {
        None => "absent".to_string(),
        Some(Value::Null) => "null".to_string(),
        Some(Value::String(s)) if s.parse::<f64>().is_ok() => "numeric-looking string".to_string(),
        Some(Value::String(s)) if s == "true" || s == "false" || s == "null" => "keyword-looking string".to_string(),
        Some(Value::String(s)) if s.starts_with('[') || s.starts_with('{') => "json-looking string".to_string(),
        Some(Value::String(s)) if s.is_empty() => "empty string".to_string(),
        Some(Value::String(s)) if s.len() > 1000 => "long string".to_string(),
        Some(Value::String(_)) => "string".to_string(),
        Some(Value::Number(n)) if n.is_f64() => "float".to_string(),
        Some(Value::Number(n)) if n.as_i64().is_none() => "u64 above i64::MAX".to_string(),
        Some(Value::Number(_)) => "integer".to_string(),
        Some(Value::Bool(_)) => "bool".to_string(),
        _ => "other".to_string(),
    };
    format!("field {field}: {kind}")
}

struct Q {
    text: String,
    /// None = all payload fields
    ret: Option<Vec<&'static str>>,
    ctx: Option<&'static str>,
}

fn queries() -> Vec<Q> {
    let mut v = vec![
        Q { text: "QUERY v".into(), ret: None, ctx: None },
        Q { text: "REPLAY v FOR c0".into(), ret: None, ctx: Some("c0") },
        Q { text: "QUERY v RETURN []".into(), ret: None, ctx: None },
    ];
    let lists: Vec<Vec<&'static str>> = vec![vec!["s"], vec!["i"], vec!["f"], vec!["s", "i"], vec!["i", "f"], vec!["s", "f"], vec!["i", "f", "s"], vec!["nosuch"], vec!["s", "nosuch"], vec!["id", "o", "os"], vec!["u", "b", "e", "d"]];
    for l in lists {
        v.push(Q { text: format!("QUERY v RETURN [{}]", l.join(", ")), ret: Some(l.clone()), ctx: None });
        if l.len() <= 2 {
            v.push(Q { text: format!("REPLAY v FOR c0 RETURN [{}]", l.join(", ")), ret: Some(l.clone()), ctx: Some("c0") });
        }
    }
    v.push(Q { text: "QUERY v RETURN [\"s\", \"i\"]".into(), ret: Some(vec!["s", "i"]), ctx: None });
    v
}

pub fn check(tier: &str) -> i32 {
    let sch = schema();
    let qs = queries();
    let judge = |rows: &[(usize, Row)], _cfg: &SysConfig, _layout: Layout, qi: usize, reps: &[Reply]| -> Judged {
        let rep = &reps[qi];
        let q = &qs[qi];
        let sch = schema();
        let want: Vec<&Row> = rows.iter().map(|(_, r)| r).filter(|r| q.ctx.map_or(true, |c| r.ctx == c)).collect();
        let mut errs: Vec<String> = Vec::new();
        let mut class = String::new();
        let mut canon: Vec<String> = Vec::new();
        if rep.failure.is_some() || rep.status != 200 {
            return Judged { answer: Some(format!("status {}", rep.status)), verdict: Err(format!("status {} {} {:?}", rep.status, rep.message, rep.failure)), class: "error reply".into(), nontrivial: true };
        }
        if rep.rows.len() != want.len() {
            errs.push(format!("{} rows returned, {} stored", rep.rows.len(), want.len()));
            class = "row count".into();
        }
        for r in &want {
            let matches: Vec<&Map<String, Value>> = rep.rows.iter().filter(|x| x.get("timestamp").and_then(|t| t.as_i64()) == Some(r.ts)).collect();
            if matches.len() != 1 {
                errs.push(format!("row id={} (ts {}) returned {} times", r.k, r.ts, matches.len()));
                if class.is_empty() {
                    class = "row multiplicity".into();
                }
                continue;
            }
            let got = matches[0];
            let mut c = format!("id{}:", r.k);
            // core fields
            if got.get("context_id").and_then(|v| v.as_str()) != Some(r.ctx.as_str()) {
                errs.push(format!("id={}: context_id {:?}", r.k, got.get("context_id")));
                class = "core field".into();
            }
            if got.get("event_type").and_then(|v| v.as_str()) != Some("v") {
                errs.push(format!("id={}: event_type {:?}", r.k, got.get("event_type")));
                class = "core field".into();
            }
            if got.get("event_id").and_then(|v| v.as_u64()).map_or(true, |x| x == 0) {
                errs.push(format!("id={}: event_id {:?}", r.k, got.get("event_id")));
                class = "core field".into();
            }
            let requested: Option<Vec<&str>> = q.ret.as_ref().map(|l| l.iter().copied().filter(|f| sch.ftype(f).is_some()).collect());
            for (f, ft) in &sch.fields {
                let expected_present = requested.as_ref().map_or(true, |l| l.contains(&f.as_str()));
                let gv = got.get(f);
                if expected_present {
                    if let Err(e) = value_ok(ft, r.payload.get(f), gv) {
                        errs.push(format!("id={} {f}: {e}", r.k));
                        if class.is_empty() {
                            class = value_class(f, r.payload.get(f));
                        }
                    }
                    c.push_str(&format!("{f}={};", gv.map(short).unwrap_or("-".into())));
                } else if gv.is_some() {
                    errs.push(format!("id={}: column {f} returned although not in RETURN list", r.k));
                    if class.is_empty() {
                        class = "RETURN projection".into();
                    }
                }
            }
            for k in got.keys() {
                if !["context_id", "event_type", "timestamp", "event_id"].contains(&k.as_str()) && sch.ftype(k).is_none() {
                    errs.push(format!("id={}: unknown column {k}", r.k));
                    class = "RETURN projection".into();
                }
            }
            canon.push(c);
        }
        canon.sort();
        Judged {
            answer: Some(canon.join("|")),
            verdict: if errs.is_empty() { Ok(()) } else { Err(errs.join("; ")) },
            class,
            nontrivial: true,
        }
    };
    let layouts = vec![Layout::Mem, Layout::FlushEnd, Layout::FlushEach, Layout::Compact1, Layout::RestartWal, Layout::RestartSeg, Layout::LabelReuse];
    let spec = Spec {
        prop: "C07",
        tier,
        level: "exploration",
        schemas: vec![sch],
        datasets: datasets(tier),
        cfgs: if tier == "quick" {
            vec![SysConfig { fill_factor: 4, event_per_zone: 2, ..Default::default() }, SysConfig { fill_factor: 2, event_per_zone: 64, ..Default::default() }]
        } else {
            vec![SysConfig { fill_factor: 4, event_per_zone: 2, ..Default::default() }, SysConfig { fill_factor: 8, event_per_zone: 1, shards: 3, ..Default::default() }, SysConfig { fill_factor: 2, event_per_zone: 64, ..Default::default() }]
        },
        layouts,
        queries: qs.iter().map(|q| q.text.clone()).collect(),
        judge: &judge,
        rule: "rows built from per-type value alphabets (18 strings incl. empty / numeric-, keyword-, JSON-looking / 4 KB / quotes+newline / separators, TAB and NUL / lengths 255, 256, 65536; 13 signed integers incl. both extremes and values that do not survive f64, f32 or i32 (2^53+1, 1234567890123456789, MAX-1, 2^31+1, 2^24+1); 8 u64 incl. 2^63, 2^64-1, 2^53+1; 18 floats incl. -0.0, 1e308, 5e-324, 0.1, 1/3, 2^24+1, 1e-7 and doubles needing 17 significant digits at extreme magnitudes (1.2345678901234567e20, f64::MAX, 2.2250738585072014e-308); bools; enum variants; null and absent optionals; 4 spellings of one instant): every pair of alphabet positions shares a zone; x 7 storage tiers (memory, one segment, a segment per row, compacted, WAL-recovered, segment-recovered, and compacted with a level-1 label handed out twice in one process) x 23 QUERY/REPLAY RETURN variants; every returned cell is compared with the stored value per declared type, core fields must be present and right, non-requested payload columns absent; distinct_nontrivial = (data set, query) pairs judged".into(),
        assumptions: vec!["numbers compare numerically (1 == 1.0, -0.0 == 0.0); an optional stored as null or left out may come back as null or be missing".into(), "rows are matched by their (unique, driver-controlled) STORE second".into()],
        describe: &|_| "a stored value / RETURN projection does not round-trip (exact cases in known/C07.*.json)".to_string(),
        extra: json!({}),
    };
    prodcheck::run(&spec)
}
