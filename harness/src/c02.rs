//! C02 — a query returns exactly the matching events, wherever they are stored.
//! Product mode: data multisets x layouts x predicates. Two oracles per query:
//! the reference evaluator (refq) and agreement across all layouts.
use crate::lab::*;
use crate::prod::{self, Layout, Scenario};
use crate::refq::*;
use crate::sys::SysConfig;
use serde_json::{json, Map, Value};
use std::collections::{BTreeMap, BTreeSet};

pub fn schema() -> Schema {
    Schema {
        name: "t".into(),
        fields: vec![
            ("id".into(), FType::Int),
            ("k".into(), FType::Int),
            ("u".into(), FType::U64),
            ("p".into(), FType::Float),
            ("s".into(), FType::Str),
            ("b".into(), FType::Bool),
            ("e".into(), FType::Enum(vec!["x".into(), "y".into(), "z".into()])),
            ("o".into(), FType::OptInt),
            ("d".into(), FType::Datetime),
        ],
    }
}

fn obj(v: Value) -> Map<String, Value> {
    v.as_object().unwrap().clone()
}

/// ten row profiles with boundary values in every field
pub fn profiles() -> Vec<Map<String, Value>> {
    vec![
        obj(json!({"k": -3, "u": 0, "p": -0.5, "s": "", "b": false, "e": "x", "o": null, "d": 1700000000})),
        obj(json!({"k": 0, "u": 1, "p": 0.0, "s": "a", "b": true, "e": "y", "d": "2023-11-14T22:13:20Z"})),
        obj(json!({"k": 3, "u": 9223372036854775808u64, "p": 2.0, "s": "ab", "b": false, "e": "z", "o": 3, "d": 1700003600})),
        obj(json!({"k": i64::MAX, "u": u64::MAX, "p": 1.5, "s": "123", "b": true, "e": "x", "o": -1, "d": 1700086400})),
        obj(json!({"k": 5, "u": 5, "p": 1000.0, "s": "é", "b": false, "e": "y", "o": 0, "d": "2023-11-15T00:00:00+01:00"})),
        obj(json!({"k": 3, "u": 1, "p": 1.5, "s": "a", "b": true, "e": "z", "o": 3, "d": 1700003599})),
        obj(json!({"k": -3, "u": 5, "p": 2.5, "s": "b", "b": true, "e": "x", "o": null, "d": 1700000001})),
        obj(json!({"k": 4, "u": 0, "p": -0.5, "s": "ab", "b": false, "e": "y", "o": 7, "d": 1699999999})),
        obj(json!({"k": i64::MIN + 1, "u": 2, "p": 3.0, "s": "Z", "b": true, "e": "z", "d": 1699900000})),
        obj(json!({"k": 1, "u": 3, "p": 0.1, "s": "null", "b": false, "e": "x", "o": 1, "d": 1700028000})),
    ]
}

pub fn combos(n: usize, kmax: usize) -> Vec<Vec<usize>> {
    let mut out = Vec::new();
    fn rec(start: usize, n: usize, left: usize, cur: &mut Vec<usize>, out: &mut Vec<Vec<usize>>) {
        if left == 0 {
            out.push(cur.clone());
            return;
        }
        for i in start..n {
            cur.push(i);
            rec(i + 1, n, left - 1, cur, out);
            cur.pop();
        }
    }
    for k in 1..=kmax {
        rec(0, n, k, &mut Vec::new(), &mut out);
    }
    out
}

pub fn rows_of(sel: &[usize]) -> Vec<(usize, Row)> {
    let ps = profiles();
    sel.iter()
        .enumerate()
        .map(|(i, pi)| {
            let mut p = ps[*pi].clone();
            p.insert("id".into(), json!(i as i64 + 1));
            (0usize, Row { k: i as i64 + 1, ctx: format!("c{}", pi % 2), payload: p, ts: 0 })
        })
        .collect()
}

/// the same rows of type `t`, interleaved with two rows of a second type `t2` (same fields,
/// ids 101 and 102) whose values are taken from the same profiles, so that they would match
/// the same predicates if a read leaked across event types
pub fn rows_of_two(sel: &[usize]) -> Vec<(usize, Row)> {
    let ps = profiles();
    let mut out = Vec::new();
    let other = |id: i64, pi: usize| {
        let mut p = ps[pi % 10].clone();
        p.insert("id".into(), json!(id));
        (1usize, Row { k: id, ctx: format!("c{}", pi % 2), payload: p, ts: 0 })
    };
    out.push(other(101, sel[0] + 3));
    for (i, r) in rows_of(sel).into_iter().enumerate() {
        out.push(r);
        if i == 0 {
            out.push(other(102, sel[0]));
        }
    }
    out
}

pub fn schema2() -> Schema {
    Schema { name: "t2".into(), fields: schema().fields }
}

pub fn leaf_preds() -> Vec<Pred> {
    let mut v = Vec::new();
    let int_l = |f: &str, ls: &[Lit], v: &mut Vec<Pred>| {
        for l in ls {
            for op in OPS {
                v.push(Pred::Cmp(f.into(), op, l.clone()));
            }
        }
    };
    int_l("k", &[Lit::Int(-3), Lit::Int(0), Lit::Int(3), Lit::Int(2), Lit::Int(5), Lit::Int(i64::MAX), Lit::Float(2.5), Lit::Float(-0.5)], &mut v);
    int_l("u", &[Lit::Int(0), Lit::Int(1), Lit::Int(5), Lit::Int(7), Lit::U(9223372036854775808), Lit::U(u64::MAX)], &mut v);
    int_l("p", &[Lit::Float(-0.5), Lit::Float(0.0), Lit::Float(1.5), Lit::Int(2), Lit::Float(2.0), Lit::Float(1.6), Lit::Int(1000)], &mut v);
    int_l("s", &[Lit::Str("".into()), Lit::Str("a".into()), Lit::Str("ab".into()), Lit::Str("aa".into()), Lit::Str("123".into()), Lit::Str("é".into()), Lit::Word("a".into())], &mut v);
    int_l("o", &[Lit::Int(3), Lit::Int(-1), Lit::Int(0), Lit::Int(2)], &mut v);
    int_l("d", &[Lit::Int(1700000000), Lit::Int(1700003600), Lit::Str("2023-11-14T22:13:20Z".into()), Lit::Int(1700000001), Lit::Int(1700006400)], &mut v);
    for l in ["true", "false"] {
        for op in [Op::Eq, Op::Neq] {
            v.push(Pred::Cmp("b".into(), op, Lit::Word(l.into())));
        }
    }
    for l in ["x", "y", "z", "w"] {
        for op in [Op::Eq, Op::Neq] {
            v.push(Pred::Cmp("e".into(), op, Lit::Str(l.into())));
        }
    }
    v.push(Pred::In("k".into(), vec![Lit::Int(3)]));
    v.push(Pred::In("k".into(), vec![Lit::Int(0), Lit::Int(3)]));
    v.push(Pred::In("k".into(), vec![Lit::Int(-3), Lit::Int(2), Lit::Int(5)]));
    v.push(Pred::In("s".into(), vec![Lit::Str("a".into()), Lit::Str("ab".into())]));
    v.push(Pred::In("e".into(), vec![Lit::Str("x".into()), Lit::Str("z".into())]));
    v.push(Pred::In("u".into(), vec![Lit::Int(1), Lit::Int(7)]));
    v
}

pub fn core_leaves() -> Vec<Pred> {
    vec![
        Pred::Cmp("k".into(), Op::Eq, Lit::Int(3)),
        Pred::Cmp("k".into(), Op::Gte, Lit::Int(0)),
        Pred::Cmp("k".into(), Op::Lt, Lit::Int(3)),
        Pred::Cmp("s".into(), Op::Eq, Lit::Str("a".into())),
        Pred::Cmp("s".into(), Op::Gt, Lit::Str("a".into())),
        Pred::Cmp("e".into(), Op::Eq, Lit::Str("x".into())),
        Pred::Cmp("u".into(), Op::Lte, Lit::Int(1)),
        Pred::Cmp("p".into(), Op::Gt, Lit::Int(1)),
        Pred::Cmp("o".into(), Op::Eq, Lit::Int(3)),
        Pred::Cmp("d".into(), Op::Gte, Lit::Int(1700000001)),
        Pred::Cmp("k".into(), Op::Eq, Lit::Int(77)),
        Pred::In("k".into(), vec![Lit::Int(0), Lit::Int(3)]),
    ]
}

pub fn compound_preds(tier: &str) -> Vec<Pred> {
    let c = core_leaves();
    let mut v = Vec::new();
    let b = |p: &Pred| Box::new(p.clone());
    for x in &c {
        v.push(Pred::Not(b(x)));
    }
    let n2 = if tier == "quick" { 6 } else { c.len() };
    for i in 0..n2 {
        for j in 0..n2 {
            if i == j {
                continue;
            }
            v.push(Pred::And(b(&c[i]), b(&c[j])));
            v.push(Pred::Or(b(&c[i]), b(&c[j])));
        }
    }
    for i in 0..c.len() {
        let (x, y, z) = (&c[i], &c[(i + 3) % c.len()], &c[(i + 7) % c.len()]);
        v.push(Pred::Or(b(x), Box::new(Pred::And(b(y), b(z)))));
        v.push(Pred::And(Box::new(Pred::Or(b(x), b(y))), b(z)));
        v.push(Pred::Not(Box::new(Pred::And(b(x), b(y)))));
        v.push(Pred::Not(Box::new(Pred::Or(b(x), b(y)))));
        v.push(Pred::And(Box::new(Pred::Not(b(x))), b(y)));
        v.push(Pred::Or(Box::new(Pred::Not(b(x))), Box::new(Pred::Not(b(z)))));
        v.push(Pred::Not(Box::new(Pred::Not(b(x)))));
    }
    // ORs over one field that mix a range with two equalities, the range first (`r OR e1 OR e2`) and
    // the equalities parenthesised (`(e1 OR e2) OR r`): a planner that folds same-field equalities into
    // a value list must keep the range apart
    let cmp = |f: &str, op: Op, l: Lit| Pred::Cmp(f.into(), op, l);
    for (r, e1, e2) in [
        (cmp("k", Op::Gt, Lit::Int(3)), cmp("k", Op::Eq, Lit::Int(-3)), cmp("k", Op::Eq, Lit::Int(0))),
        (cmp("k", Op::Lte, Lit::Int(0)), cmp("k", Op::Eq, Lit::Int(3)), cmp("k", Op::Eq, Lit::Int(5))),
        (cmp("d", Op::Gte, Lit::Int(1700006400)), cmp("d", Op::Eq, Lit::Int(1700000000)), cmp("d", Op::Eq, Lit::Int(1699900000))),
    ] {
        v.push(Pred::Or(b(&r), Box::new(Pred::Or(b(&e1), b(&e2)))));
        v.push(Pred::Or(Box::new(Pred::Or(b(&e1), b(&e2))), b(&r)));
    }
    v
}

#[derive(Debug, Clone)]
pub struct Q {
    pub text: String,
    pub pred: Option<Pred>,
    pub ctx: Option<String>,
    /// (seconds, field)
    pub since: Option<(i64, Option<String>)>,
}

pub fn queries(tier: &str) -> Vec<Q> {
    let mut preds: Vec<Option<Pred>> = vec![None];
    preds.extend(leaf_preds().into_iter().map(Some));
    preds.extend(compound_preds(tier).into_iter().map(Some));
    let mut out = Vec::new();
    for (i, p) in preds.iter().enumerate() {
        let w = p.as_ref().map(|p| format!(" WHERE {}", p.text())).unwrap_or_default();
        out.push(Q { text: format!("QUERY t{w}"), pred: p.clone(), ctx: None, since: None });
        if i % 5 == 0 {
            out.push(Q { text: format!("QUERY t FOR c0{w}"), pred: p.clone(), ctx: Some("c0".into()), since: None });
        }
        if i % 7 == 0 {
            // SINCE on the payload datetime field, quoted literal (the grammar takes a string)
            out.push(Q {
                text: format!("QUERY t SINCE \"1700000001\" USING d{w}"),
                pred: p.clone(),
                ctx: None,
                since: Some((1700000001, Some("d".into()))),
            });
        }
        if i % 11 == 0 {
            // a bound at midnight of the day after most instants: a zone that straddles midnight
            // (its newest instant earlier in the day than its oldest) still has to be read
            out.push(Q {
                text: format!("QUERY t SINCE \"1700006400\" USING d{w}"),
                pred: p.clone(),
                ctx: None,
                since: Some((1700006400, Some("d".into()))),
            });
        }
    }
    out
}

/// feature class of a leaf, used only to group discrepancies
pub fn leaf_class(s: &Schema, p: &Pred) -> String {
    match p {
        Pred::Cmp(f, op, l) => {
            let ft = match s.ftype(f) {
                Some(FType::Int) => "int",
                Some(FType::U64) => "u64",
                Some(FType::Float) => "float",
                Some(FType::Str) => "str",
                Some(FType::Bool) => "bool",
                Some(FType::Enum(_)) => "enum",
                Some(FType::OptInt) => "optint",
                Some(FType::Datetime) => "datetime",
                _ => "other",
            };
            let lk = match l {
                Lit::Int(_) => "int",
                Lit::U(_) => "bigu",
                Lit::Float(_) => "float",
                Lit::Str(x) if x.parse::<f64>().is_ok() => "numstr",
                Lit::Str(x) if parse_iso(x, false).is_some() => "isostr",
                Lit::Str(_) => "str",
                Lit::Word(_) => "word",
            };
            let ok = match op {
                Op::Eq => "eq",
                Op::Neq => "neq",
                _ => "range",
            };
            format!("{ft}.{ok}.{lk}")
        }
        Pred::In(f, _) => format!("in.{f}"),
        _ => "compound".into(),
    }
}

pub fn query_class(s: &Schema, q: &Q) -> BTreeSet<String> {
    let mut c = BTreeSet::new();
    if let Some(p) = &q.pred {
        for l in p.leaves() {
            c.insert(leaf_class(s, l));
        }
        if p.has_not() {
            c.insert("NOT".into());
        }
    }
    if q.since.is_some() {
        c.insert("SINCE".into());
    }
    c
}

pub struct CaseResult {
    pub dataset: Vec<usize>,
    pub cfg: SysConfig,
    /// per query: per layout answer
    pub answers: Vec<BTreeMap<Layout, Result<Vec<i64>, String>>>,
    pub expected: Vec<Option<Vec<i64>>>,
    pub errors: Vec<String>,
}

pub fn run_case(dir: &std::path::Path, dataset: &[usize], cfg: &SysConfig, layouts: &[Layout], qs: &[Q]) -> CaseResult {
    run_case2(dir, dataset, cfg, layouts, qs, false)
}

pub fn run_case2(dir: &std::path::Path, dataset: &[usize], cfg: &SysConfig, layouts: &[Layout], qs: &[Q], two: bool) -> CaseResult {
    let sch = schema();
    let mut answers: Vec<BTreeMap<Layout, Result<Vec<i64>, String>>> = vec![BTreeMap::new(); qs.len()];
    let mut expected: Vec<Option<Vec<i64>>> = vec![None; qs.len()];
    let mut errors = Vec::new();
    for (li, layout) in layouts.iter().enumerate() {
        let sc = Scenario {
            schemas: if two { vec![sch.clone(), schema2()] } else { vec![sch.clone()] },
            rows: if two { rows_of_two(dataset) } else { rows_of(dataset) },
            layout: *layout,
            cfg: cfg.clone(),
            queries: qs.iter().map(|q| q.text.clone()).collect(),
            entropy: 3,
        };
        let d = dir.join(format!("l{li}"));
        let tl = std::time::Instant::now();
        let run_res = prod::run(&d, &sc);
        if std::env::var("VERIF_TIMING").is_ok() {
            eprintln!("timing {dataset:?} {layout:?} shards={} {:.2}s", cfg.shards, tl.elapsed().as_secs_f64());
        }
        match run_res {
            Ok(out) => {
                let rows: Vec<Row> = out.rows.iter().filter(|(ti, _)| *ti == 0).map(|(_, r)| r.clone()).collect();
                for (qi, q) in qs.iter().enumerate() {
                    let rep = &out.replies[qi];
                    let mut r2 = rep.clone();
                    // key column is `id`
                    for row in r2.rows.iter_mut() {
                        if let Some(id) = row.get("id").cloned() {
                            row.insert("k".into(), id);
                        }
                    }
                    answers[qi].insert(*layout, prod::keys_of(&r2));
                    if li == 0 {
                        expected[qi] = select(&sch, &rows, q.pred.as_ref(), q.ctx.as_deref(), q.since.as_ref().map(|s| s.0), q.since.as_ref().and_then(|s| s.1.as_deref()));
                    }
                }
            }
            Err(e) => errors.push(format!("{layout:?}: {e}")),
        }
        let _ = std::fs::remove_dir_all(&d);
    }
    CaseResult { dataset: dataset.to_vec(), cfg: cfg.clone(), answers, expected, errors }
}

pub fn scenario_for(dataset: &[usize], cfg: &SysConfig, layout: Layout, queries: Vec<String>) -> Scenario {
    Scenario { schemas: vec![schema()], rows: rows_of(dataset), layout, cfg: cfg.clone(), queries, entropy: 3 }
}

pub fn raw(tier: &str) {
    let scratch = Scratch::new("c02");
    let qs = queries(tier);
    let sch = schema();
    let all = combos(10, 4);
    let step = if tier == "quick" { 13 } else { 1 };
    let datasets: Vec<Vec<usize>> = all.into_iter().step_by(step).collect();
    let cfgs = vec![SysConfig { fill_factor: 8, event_per_zone: 1, ..Default::default() }, SysConfig { fill_factor: 4, event_per_zone: 2, shards: 3, ..Default::default() }];
    let layouts = ALL;
    let work: Vec<(Vec<usize>, SysConfig)> = datasets.iter().flat_map(|d| cfgs.iter().map(move |c| (d.clone(), c.clone()))).collect();
    let t0 = std::time::Instant::now();
    let res = par_map(&work, threads(), |i, (d, c)| run_case(&scratch.dir.join(format!("w{i}")), d, c, &layouts, &qs));
    println!("cases={} queries={} layouts={} wall={:.1}s", work.len(), qs.len(), layouts.len(), t0.elapsed().as_secs_f64());
    let mut sem: BTreeMap<String, (usize, String)> = BTreeMap::new();
    let mut lay: BTreeMap<String, (usize, String)> = BTreeMap::new();
    let mut errs = 0;
    for r in &res {
        for e in &r.errors {
            errs += 1;
            if errs < 5 {
                println!("ERR {e}");
            }
        }
        for (qi, q) in qs.iter().enumerate() {
            let a = &r.answers[qi];
            let distinct: BTreeSet<String> = a.values().map(|x| format!("{x:?}")).collect();
            if distinct.len() > 1 {
                let key = format!("{:?}", query_class(&sch, q));
                let e = lay.entry(key).or_insert((0, String::new()));
                e.0 += 1;
                if e.1.is_empty() {
                    e.1 = format!("{:?} {:?} {} :: {:?}", r.dataset, (r.cfg.shards, r.cfg.event_per_zone), q.text, a);
                }
            } else if let (Some(exp), Some(Ok(got))) = (&r.expected[qi], a.values().next()) {
                if exp != got {
                    let key = format!("{:?}", query_class(&sch, q));
                    let e = sem.entry(key).or_insert((0, String::new()));
                    e.0 += 1;
                    if e.1.is_empty() {
                        e.1 = format!("{:?} {} :: got {:?} want {:?}", r.dataset, q.text, got, exp);
                    }
                }
            } else if let Some(Err(e1)) = a.values().next() {
                let key = format!("ERROR {:?}", query_class(&sch, q));
                let e = sem.entry(key).or_insert((0, String::new()));
                e.0 += 1;
                if e.1.is_empty() {
                    e.1 = format!("{:?} {} :: {e1}", r.dataset, q.text);
                }
            }
        }
    }
    println!("--- layout-dependent answers");
    for (k, (n, ex)) in &lay {
        println!("{n:6} {k}\n       e.g. {}", ex.chars().take(500).collect::<String>());
    }
    println!("--- same in all layouts, differs from the reference evaluator");
    for (k, (n, ex)) in &sem {
        println!("{n:6} {k}\n       e.g. {}", ex.chars().take(300).collect::<String>());
    }
}

pub const ALL: [Layout; 10] = prod::ALL_LAYOUTS;

pub fn coarse_class(s: &Schema, q: &Q) -> String {
    let mut c = match &q.pred {
        None => "no-where".to_string(),
        Some(p) => match p {
            Pred::Cmp(..) | Pred::In(..) => format!("leaf {}", leaf_class(s, p)),
            _ => format!("compound{}", if p.has_not() { " with NOT" } else { "" }),
        },
    };
    if q.since.is_some() {
        c.push_str(" +SINCE");
    }
    if q.ctx.is_some() {
        c.push_str(" +FOR");
    }
    c
}

pub fn cfgs(tier: &str) -> Vec<SysConfig> {
    let mut v = vec![
        SysConfig { fill_factor: 8, event_per_zone: 1, ..Default::default() },
        SysConfig { fill_factor: 4, event_per_zone: 2, shards: 3, ..Default::default() },
    ];
    if tier != "quick" {
        v.push(SysConfig { fill_factor: 3, event_per_zone: 3, shards: 1, segments_per_merge: 3, ..Default::default() });
    }
    // memtable of one row and fan-in 4: compacted segments hold more zones than `fill_factor`
    v.push(SysConfig { fill_factor: 1, event_per_zone: 1, shards: 1, segments_per_merge: 4, ..Default::default() });
    v
}

pub fn check(tier: &str) -> i32 {
    let t0 = std::time::Instant::now();
    let scratch = Scratch::new("c02");
    let sch = schema();
    let mut qs = queries(tier);
    if tier == "quick" {
        // all leaves, every second compound
        let nleaf = 1 + leaf_preds().len();
        let mut i = 0;
        qs.retain(|q| {
            i += 1;
            match &q.pred {
                None | Some(Pred::Cmp(..)) | Some(Pred::In(..)) => true,
                _ => i % 2 == 0,
            }
        });
        let _ = nleaf;
    }
    let all = combos(10, 4);
    let step = if tier == "quick" { 13 } else { 1 };
    let datasets: Vec<Vec<usize>> = all.into_iter().step_by(step).collect();
    let mut cfgs = cfgs(tier);
    let n_small = cfgs.len();
    let layouts = ALL;
    let work: Vec<(usize, Vec<usize>)> = (0..n_small).flat_map(|ci| datasets.iter().map(move |d| (ci, d.clone()))).collect();
    // third part: long data sets in zones of 100 / 70 rows: one common profile and other profiles at
    // chosen positions only (around the 64-row word boundary, at zone ends, in a partial last zone)
    cfgs.push(SysConfig { fill_factor: 1, event_per_zone: 100, shards: 1, ..Default::default() });
    cfgs.push(SysConfig { fill_factor: 3, event_per_zone: 70, shards: 1, ..Default::default() });
    let bulk = |n: usize, common: usize, at: &[(usize, usize)]| -> Vec<usize> { (0..n).map(|i| at.iter().find(|(p, _)| *p == i).map(|(_, v)| *v).unwrap_or(common)).collect() };
    let mut datasets3: Vec<Vec<usize>> = vec![bulk(230, 1, &[(63, 2), (64, 3), (99, 4), (100, 5), (129, 6), (150, 9), (199, 7), (229, 8)])];
    if tier != "quick" {
        datasets3.push(bulk(130, 7, &[(0, 9), (64, 0), (69, 2), (70, 3), (129, 4)]));
        datasets3.push(bulk(300, 9, &[(65, 0), (66, 0), (139, 5), (140, 6), (209, 8), (299, 2)]));
    }
    let work3: Vec<(usize, Vec<usize>)> = (n_small..cfgs.len()).flat_map(|ci| datasets3.iter().map(move |d| (ci, d.clone()))).collect();
    // second part: the same queries while rows of a second event type share memtables, segments and zones
    let step2 = if tier == "quick" { 29 } else { 3 };
    let datasets2: Vec<Vec<usize>> = combos(10, 3).into_iter().filter(|d| d.len() >= 2).step_by(step2).collect();
    let work2: Vec<(usize, Vec<usize>)> = (0..cfgs.len().min(2)).flat_map(|ci| datasets2.iter().map(move |d| (ci, d.clone()))).collect();
    // determinism canary
    let can1 = run_case(&scratch.dir.join("canary"), &work[work.len() / 2].1, &cfgs[0], &layouts[..4], &qs[..40.min(qs.len())]);
    let can2 = run_case(&scratch.dir.join("canary"), &work[work.len() / 2].1, &cfgs[0], &layouts[..4], &qs[..40.min(qs.len())]);
    if format!("{:?}", can1.answers) != format!("{:?}", can2.answers) {
        eprintln!("MACHINERY: nondeterminism detected in the canary case");
        return 2;
    }
    let res = par_map(&work, threads(), |i, (ci, d)| run_case(&scratch.dir.join(format!("w{i}")), d, &cfgs[*ci], &layouts, &qs));
    let res2 = par_map(&work2, threads(), |i, (ci, d)| run_case2(&scratch.dir.join(format!("v{i}")), d, &cfgs[*ci], &layouts, &qs, true));
    // one state per (case, layout) in parallel: the long data sets dominate the run time
    let work3l: Vec<(usize, usize)> = (0..work3.len()).flat_map(|w| (0..layouts.len()).map(move |l| (w, l))).collect();
    let res3l = par_map(&work3l, threads(), |i, (w, l)| run_case(&scratch.dir.join(format!("u{i}")), &work3[*w].1, &cfgs[work3[*w].0], &layouts[*l..*l + 1], &qs));
    let mut res3: Vec<CaseResult> = Vec::new();
    for (w, (ci, d)) in work3.iter().enumerate() {
        let mut merged = CaseResult { dataset: d.clone(), cfg: cfgs[*ci].clone(), answers: vec![BTreeMap::new(); qs.len()], expected: vec![None; qs.len()], errors: Vec::new() };
        for (i, (w2, _)) in work3l.iter().enumerate() {
            if *w2 != w {
                continue;
            }
            let r = &res3l[i];
            for qi in 0..qs.len() {
                for (k, v) in &r.answers[qi] {
                    merged.answers[qi].insert(*k, v.clone());
                }
                if merged.expected[qi].is_none() {
                    merged.expected[qi] = r.expected[qi].clone();
                }
            }
            merged.errors.extend(r.errors.iter().cloned());
        }
        res3.push(merged);
    }
    let mut machinery = Vec::new();
    for r in res.iter().chain(res2.iter()).chain(res3.iter()) {
        for e in &r.errors {
            machinery.push(e.clone());
        }
    }
    if !machinery.is_empty() {
        for m in machinery.iter().take(5) {
            eprintln!("MACHINERY: {m}");
        }
        return 2;
    }
    // per (config, query): signature over all data sets
    let mut failing = Vec::new();
    let mut evaluations = 0u64;
    let mut discriminating = 0u64;
    let mut with_ref = 0u64;
    let mut outcomes: BTreeSet<String> = BTreeSet::new();
    for (part, work, res) in [("", &work, &res), ("2types|", &work2, &res2), ("bulk|", &work3, &res3)] {
    for ci in 0..cfgs.len() {
        for (qi, q) in qs.iter().enumerate() {
            let mut sig = String::new();
            let mut any_fail = false;
            let mut layout_dep = false;
            let mut detail = Vec::new();
            for (wi, (wci, d)) in work.iter().enumerate() {
                if *wci != ci {
                    continue;
                }
                let r = &res[wi];
                let a = &r.answers[qi];
                evaluations += a.len() as u64;
                let distinct: BTreeSet<String> = a.values().map(|x| format!("{x:?}")).collect();
                let exp = &r.expected[qi];
                if let Some(e) = exp {
                    with_ref += 1;
                    if !e.is_empty() && e.len() < d.len() {
                        discriminating += 1;
                    }
                }
                let first = a.values().next();
                let ok = distinct.len() == 1
                    && match (first, exp) {
                        (Some(Ok(got)), Some(e)) => got == e,
                        (Some(Ok(_)), None) => true,
                        _ => false,
                    };
                outcomes.insert(format!("{first:?}"));
                if ok {
                    sig.push_str("ok;");
                } else {
                    any_fail = true;
                    if distinct.len() > 1 {
                        layout_dep = true;
                    }
                    // long data sets: the signature and the report carry digests and sizes, not the id lists
                    if d.len() > 20 {
                        let short = |x: &Result<Vec<i64>, String>| match x {
                            Ok(v) => format!("{} rows #{}", v.len(), crate::golden::digest(&format!("{v:?}"))),
                            Err(e) => format!("error {e}"),
                        };
                        let a2: BTreeMap<String, String> = a.iter().map(|(k, v)| (format!("{k:?}"), short(v))).collect();
                        let e2 = exp.as_ref().map(|e| format!("{} rows #{}", e.len(), crate::golden::digest(&format!("{e:?}"))));
                        sig.push_str(&format!("{} rows:{a2:?}:{e2:?};", d.len()));
                        if detail.len() < 3 {
                            let first_missing: Option<i64> = match (first, exp) {
                                (Some(Ok(got)), Some(e)) => e.iter().find(|x| !got.contains(x)).copied(),
                                _ => None,
                            };
                            detail.push(json!({"dataset_rows": d.len(), "answers_per_layout": a2, "reference": e2, "first_reference_id_missing_from_the_first_layout": first_missing}));
                        }
                        continue;
                    }
                    sig.push_str(&format!("{d:?}:{a:?}:{exp:?};"));
                    if detail.len() < 3 {
                        detail.push(json!({"dataset_profiles": d, "answers_per_layout": format!("{a:?}"), "reference": format!("{exp:?}")}));
                    }
                }
            }
            if let Ok(dump) = std::env::var("VERIF_DUMP") {
                use std::io::Write;
                if let Ok(mut f) = std::fs::OpenOptions::new().create(true).append(true).open(&dump) {
                    let _ = writeln!(f, "{part}cfg{ci}|{}|{}", q.text, sig);
                }
            }
            if any_fail {
                failing.push(crate::golden::Failing {
                    key: format!("{part}cfg{ci}|{}", q.text),
                    digest: crate::golden::digest(&sig),
                    class: format!("{}{} [{}]", match part { "" => "", "bulk|" => "long data set in wide zones: ", _ => "two event types stored together: " }, coarse_class(&sch, q), if layout_dep { "answer depends on the storage layout" } else { "same wrong answer in every layout" }),
                    detail: json!({"config": [cfgs[ci].shards, cfgs[ci].fill_factor, cfgs[ci].event_per_zone], "query": q.text, "failing_datasets": detail}),
                });
            }
        }
    }
    }
    let verdict = crate::golden::judge("C02", tier, &failing);
    let nv = crate::golden::report("C02", &verdict, &|_c| "selection differs from the reference evaluator and/or between storage layouts (see known/C02.*.json, DESIGN.md §8 C02)".to_string(), 6);
    write_evidence(&Evidence {
        property_id: "C02".into(),
        tier: tier.into(),
        seed: seed(),
        level: "exploration".into(),
        coverage: json!({
            "evaluations": evaluations,
            "distinct_nontrivial": discriminating,
            "rule": format!("data sets = every {step}-th multiset of <=4 rows out of 10 boundary-value profiles ({} sets) x {} configurations x {} layouts {:?} x {} queries (every leaf `field op literal` over per-type literal alphabets, IN lists, AND/OR/NOT/parenthesised combinations of a 12-leaf core, with FOR / SINCE USING variants); oracle 1 = reference evaluator where the predicate is well typed and independent of the null convention, oracle 2 = identical answer in every layout; distinct_nontrivial = (data set, config, query) triples whose reference answer is a proper non-empty subset of the rows", datasets.len(), cfgs.len(), layouts.len(), layouts, qs.len()),
            "samples": qs.iter().step_by((qs.len() / 8).max(1)).take(8).map(|q| json!(q.text)).collect::<Vec<_>>(),
            "storage_states_built": (work.len() + work2.len() + work3.len()) * layouts.len(),
            "bulk_part": {"data_sets": datasets3.len(), "configurations": cfgs.len() - n_small, "rule": "data sets of 130..300 rows in zones of 100 rows (memtable of one zone) and 70 rows (memtable of three zones): one common profile and other profiles at chosen positions only (rows 63 / 64, the last row of a zone, the first row of the next, a partial last zone); every query, every layout, both oracles"},
            "two_type_part": {"data_sets": datasets2.len(), "rule": "every step-th multiset of 2..3 rows of type t, stored interleaved with two rows of a second type t2 (same fields, values from the same profiles); every query on t must select exactly the matching t rows in every layout"},
            "queries": qs.len(),
            "triples_with_reference_answer": with_ref,
            "distinct_answers": outcomes.len(),
            "failing_config_query_pairs": failing.len(),
            "listed_known": verdict.known_by_class.values().map(|v| v.0).sum::<usize>(),
            "exhaustive": step == 1,
        }),
        assumptions: vec![
            "reference semantics written from the documentation: typed comparison per declared field type; predicates whose truth for some row depends on the null convention are judged by cross-layout agreement only".into(),
            "hash-iteration order inside the engine is fixed by the pinned entropy (one seed)".into(),
            "known findings are exact cases: (config, query) -> digest of the answers over all data sets, committed in known/C02.<tier>.json".into(),
        ],
        wall_s: t0.elapsed().as_secs_f64(),
        violations: nv,
    });
    if nv == 0 { 0 } else { 1 }
}
