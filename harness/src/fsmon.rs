//! Monitor on every file-system mutation (C11): published segments are
//! immutable, ids are never reused, the segment index only changes by rename.
use crate::interpose::{FsEvent, FsKind};
use serde::Deserialize;
use std::collections::{BTreeMap, BTreeSet};
use std::io::Read;
use std::path::{Path, PathBuf};
use std::sync::{Arc, RwLock};

#[derive(Debug, Deserialize, Clone)]
pub struct IdxEntry {
    pub id: u32,
    pub uids: Vec<String>,
}

/// Independent decoder of `segments.idx`: 20-byte header, then bincode Vec<{u32, Vec<String>}>.
pub fn decode_index(path: &Path) -> Result<Vec<IdxEntry>, String> {
    let mut f = std::fs::File::open(path).map_err(|e| e.to_string())?;
    let mut hdr = [0u8; 20];
    f.read_exact(&mut hdr).map_err(|e| format!("short header: {e}"))?;
    let mut rest = Vec::new();
    f.read_to_end(&mut rest).map_err(|e| e.to_string())?;
    bincode::deserialize::<Vec<IdxEntry>>(&rest).map_err(|e| format!("bincode: {e}"))
}

pub struct Monitor {
    root: PathBuf,
    cols: String,
    shards: usize,
    live: Vec<Arc<RwLock<Vec<String>>>>,
    index_ids: Vec<BTreeSet<String>>,
    alltime: Vec<BTreeSet<String>>,
    created_now: Vec<BTreeSet<String>>,
    manifests: BTreeMap<(usize, String), String>,
    /// label -> digest at first publication, never forgotten
    pub ever: BTreeMap<String, String>,
    pub violations: Vec<String>,
    pub states: BTreeSet<String>,
    pub checks: u64,
}

fn seg_label(s: &str) -> bool {
    !s.is_empty() && s.chars().all(|c| c.is_ascii_digit())
}

impl Monitor {
    pub fn new(root: &Path, shards: usize) -> Self {
        let mut m = Monitor {
            root: root.to_path_buf(),
            cols: format!("{}/cols/", root.to_str().unwrap()),
            shards,
            live: Vec::new(),
            index_ids: vec![BTreeSet::new(); shards],
            alltime: vec![BTreeSet::new(); shards],
            created_now: vec![BTreeSet::new(); shards],
            manifests: BTreeMap::new(),
            ever: BTreeMap::new(),
            violations: Vec::new(),
            states: BTreeSet::new(),
            checks: 0,
        };
        if let Ok(text) = std::fs::read_to_string(root.join(".verif_alltime")) {
            for l in text.lines() {
                let mut it = l.split_whitespace();
                if let (Some(s), Some(id)) = (it.next().and_then(|x| x.parse::<usize>().ok()), it.next()) {
                    if s < shards {
                        m.alltime[s].insert(id.to_string());
                    }
                }
            }
        }
        for s in 0..shards {
            let dir = root.join(format!("cols/shard-{s}"));
            if let Ok(rd) = std::fs::read_dir(&dir) {
                for e in rd.flatten() {
                    let n = e.file_name().to_string_lossy().into_owned();
                    if seg_label(&n) {
                        m.alltime[s].insert(n);
                    }
                }
            }
            m.reload_index(s);
        }
        m
    }

    pub fn attach(&mut self, live: Vec<Arc<RwLock<Vec<String>>>>) {
        self.live = live;
        self.check_manifests("attach");
    }

    fn reload_index(&mut self, shard: usize) {
        let p = self.root.join(format!("cols/shard-{shard}/segments.idx"));
        if p.exists() {
            match decode_index(&p) {
                Ok(es) => {
                    self.index_ids[shard] = es.iter().map(|e| format!("{:05}", e.id)).collect();
                }
                Err(e) => self.violations.push(format!("segments.idx of shard {shard} undecodable: {e}")),
            }
        } else {
            self.index_ids[shard].clear();
        }
    }

    fn published(&self, shard: usize) -> BTreeSet<String> {
        let mut s = self.index_ids[shard].clone();
        if let Some(l) = self.live.get(shard) {
            s.extend(l.read().unwrap().iter().cloned());
        }
        s
    }

    /// (shard, first component under the shard dir, rest)
    fn classify(&self, path: &str) -> Option<(usize, String, String)> {
        let rel = path.strip_prefix(&self.cols)?;
        let mut it = rel.splitn(3, '/');
        let sh = it.next()?.strip_prefix("shard-")?.parse::<usize>().ok()?;
        let first = it.next()?.to_string();
        let rest = it.next().unwrap_or("").to_string();
        if sh >= self.shards {
            return None;
        }
        Some((sh, first, rest))
    }

    fn manifest_of(&self, shard: usize, seg: &str) -> String {
        crate::job::tree_digest(&self.root.join(format!("cols/shard-{shard}/{seg}")))
    }

    /// Every published segment keeps the file set and bytes it had when it was first seen published.
    pub fn check_manifests(&mut self, at: &str) {
        for s in 0..self.shards {
            for seg in self.published(s) {
                self.checks += 1;
                let now = self.manifest_of(s, &seg);
                let dir = self.root.join(format!("cols/shard-{s}/{seg}"));
                if !dir.is_dir() {
                    self.violations.push(format!("{at}: published segment shard-{s}/{seg} has no directory"));
                    continue;
                }
                match self.manifests.get(&(s, seg.clone())) {
                    None => {
                        self.ever.entry(format!("shard-{s}/{seg}")).or_insert(now.clone());
                        self.manifests.insert((s, seg), now);
                    }
                    Some(old) if *old != now => {
                        self.violations.push(format!("{at}: published segment shard-{s}/{seg} changed on disk"));
                        self.manifests.insert((s, seg), now);
                    }
                    _ => {}
                }
            }
            // forget manifests of segments no longer published (retired)
            let pubs = self.published(s);
            self.manifests.retain(|(sh, seg), _| *sh != s || pubs.contains(seg));
        }
    }

    pub fn on_event(&mut self, ev: &FsEvent, op: usize) {
        self.checks += 1;
        let Some((shard, first, rest)) = self.classify(&ev.path) else {
            // rename whose *target* is under cols (source elsewhere) is still relevant
            if let FsKind::Rename { to } = &ev.kind {
                if !ev.after {
                    if let Some((s, f, _)) = self.classify(to) {
                        if seg_label(&f) && self.published(s).contains(&f) {
                            self.violations.push(format!("op {op}: rename onto published segment shard-{s}/{f}: {} -> {to}", ev.path));
                        }
                    }
                }
            }
            return;
        };
        let mutating = !matches!(ev.kind, FsKind::Fsync);
        if !ev.after {
            let pubs = self.published(shard);
            self.states.insert(format!("{shard}:{:?}:{}", pubs, kind_name(&ev.kind)));
            if seg_label(&first) && mutating {
                if pubs.contains(&first) {
                    // the only legal operation on a published segment is none at all
                    self.violations.push(format!(
                        "op {op}: {} on published segment shard-{shard}/{first} ({})",
                        kind_name(&ev.kind),
                        if rest.is_empty() { "<dir>" } else { rest.as_str() }
                    ));
                } else if !rest.is_empty()
                    && matches!(ev.kind, FsKind::Open { create: true, .. })
                    && !self.created_now[shard].contains(&first)
                    && self.root.join(format!("cols/shard-{shard}/{first}")).is_dir()
                {
                    self.violations.push(format!(
                        "op {op}: file {rest} created in pre-existing (stale) segment directory shard-{shard}/{first}"
                    ));
                    // report once per directory
                    self.created_now[shard].insert(first.clone());
                }
            }
            if let FsKind::Rename { to } = &ev.kind {
                if let Some((s2, f2, _)) = self.classify(to) {
                    if seg_label(&f2) && self.published(s2).contains(&f2) {
                        self.violations.push(format!("op {op}: rename onto published segment shard-{s2}/{f2}"));
                    }
                }
            }
            if first == "segments.idx" {
                match &ev.kind {
                    FsKind::Open { .. } | FsKind::Write { .. } | FsKind::Truncate { .. } | FsKind::Unlink => {
                        self.violations.push(format!("op {op}: segments.idx of shard {shard} modified in place ({})", kind_name(&ev.kind)));
                    }
                    _ => {}
                }
            }
            return;
        }
        // after-phase bookkeeping
        match &ev.kind {
            FsKind::Mkdir if rest.is_empty() && seg_label(&first) && ev.ret == 0 => {
                if self.alltime[shard].contains(&first) {
                    self.violations.push(format!("op {op}: segment id reused: shard-{shard}/{first} created again"));
                }
                self.alltime[shard].insert(first.clone());
                self.created_now[shard].insert(first.clone());
                use std::io::Write;
                if let Ok(mut f) = std::fs::OpenOptions::new().create(true).append(true).open(self.root.join(".verif_alltime")) {
                    let _ = writeln!(f, "{shard} {first}");
                }
            }
            FsKind::Rename { to } if ev.ret == 0 => {
                if let Some((s2, f2, _)) = self.classify(to) {
                    if f2 == "segments.idx" {
                        self.reload_index(s2);
                        self.check_manifests(&format!("op {op} index swap"));
                    }
                }
            }
            _ => {}
        }
    }
}

pub fn kind_name(k: &FsKind) -> &'static str {
    match k {
        FsKind::Open { .. } => "open-for-write",
        FsKind::Write { .. } => "write",
        FsKind::Rename { .. } => "rename",
        FsKind::Unlink => "unlink",
        FsKind::Mkdir => "mkdir",
        FsKind::Rmdir => "rmdir",
        FsKind::Truncate { .. } => "truncate",
        FsKind::Link { .. } => "link",
        FsKind::Fsync => "fsync",
    }
}

/// Static rules on a crash snapshot: the index decodes, and every segment it
/// names has a directory holding a `.zones` file for each uid it lists.
pub fn static_check(root: &Path, shards: usize) -> Vec<String> {
    let mut out = Vec::new();
    for s in 0..shards {
        let sd = root.join(format!("cols/shard-{s}"));
        let idx = sd.join("segments.idx");
        if !idx.exists() {
            continue;
        }
        match decode_index(&idx) {
            Err(e) => out.push(format!("shard {s}: segments.idx undecodable after crash: {e}")),
            Ok(es) => {
                for e in es {
                    let d = sd.join(format!("{:05}", e.id));
                    if !d.is_dir() {
                        out.push(format!("shard {s}: index names segment {:05} without directory", e.id));
                        continue;
                    }
                    for u in &e.uids {
                        if !d.join(format!("{u}.zones")).exists() {
                            out.push(format!("shard {s}: index names segment {:05} uid {u} without .zones", e.id));
                        }
                    }
                }
            }
        }
    }
    out
}

/// Numeric directories under a shard that the shard's segments.idx does not name
/// (or all numeric directories when there is no index): the precondition of the
/// "orphan directory" defect, read off the crash tree itself.
pub fn orphans(root: &Path, shards: usize) -> Vec<String> {
    let mut out = Vec::new();
    for s in 0..shards {
        let sd = root.join(format!("cols/shard-{s}"));
        let named: std::collections::BTreeSet<String> = match decode_index(&sd.join("segments.idx")) {
            Ok(es) => es.iter().map(|e| format!("{:05}", e.id)).collect(),
            Err(_) => Default::default(),
        };
        if let Ok(rd) = std::fs::read_dir(&sd) {
            for e in rd.flatten() {
                let n = e.file_name().to_string_lossy().into_owned();
                if seg_label(&n) && e.path().is_dir() && !named.contains(&n) {
                    out.push(format!("shard-{s}/{n}"));
                }
            }
        }
    }
    out
}
