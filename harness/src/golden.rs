//! "Exact cases" known findings (DESIGN §2.9): a committed map from a case key
//! to the digest of the (wrong) answers observed for it on the reviewed tree.
//! A failing case is a known finding only if its key is listed and its digest
//! is unchanged; a new failing case, or a listed one that fails differently,
//! is a violation. The file is written only by `verif bless <ID>` (a manual,
//! reviewed step), never by a check.
use serde_json::{json, Value};
use sha2::{Digest, Sha256};
use std::collections::BTreeMap;

pub fn digest(s: &str) -> String {
    hex::encode(&Sha256::digest(s.as_bytes())[..8])
}

pub fn path(prop: &str, tier: &str) -> String {
    format!("/verif/known/{prop}.{tier}.json")
}

pub fn load(prop: &str, tier: &str) -> BTreeMap<String, String> {
    match std::fs::read_to_string(path(prop, tier)) {
        Ok(t) => serde_json::from_str(&t).expect("golden file malformed"),
        Err(_) => BTreeMap::new(),
    }
}

pub fn bless_mode() -> bool {
    std::env::var("VERIF_BLESS").map_or(false, |v| v == "1")
}

#[derive(Debug, Clone)]
pub struct Failing {
    pub key: String,
    pub digest: String,
    /// documentation class used for the KNOWN-FINDING line
    pub class: String,
    /// human-readable detail for the replay file
    pub detail: Value,
}

pub struct Verdict {
    pub known_by_class: BTreeMap<String, (usize, String)>,
    pub violations: Vec<Failing>,
    pub reason: BTreeMap<String, String>,
}

pub fn judge(prop: &str, tier: &str, failing: &[Failing]) -> Verdict {
    if bless_mode() {
        let map: BTreeMap<String, String> = failing.iter().map(|f| (f.key.clone(), f.digest.clone())).collect();
        let _ = std::fs::create_dir_all("/verif/known");
        std::fs::write(path(prop, tier), serde_json::to_string_pretty(&map).unwrap()).expect("write golden");
        eprintln!("blessed {} failing cases into {}", map.len(), path(prop, tier));
    }
    let g = load(prop, tier);
    let mut v = Verdict { known_by_class: BTreeMap::new(), violations: Vec::new(), reason: BTreeMap::new() };
    for f in failing {
        match g.get(&f.key) {
            Some(d) if *d == f.digest => {
                let e = v.known_by_class.entry(f.class.clone()).or_insert((0, f.key.clone()));
                e.0 += 1;
            }
            Some(_) => {
                v.reason.insert(f.key.clone(), "listed case now fails differently".into());
                v.violations.push(f.clone());
            }
            None => {
                v.reason.insert(f.key.clone(), "case not listed as a known finding".into());
                v.violations.push(f.clone());
            }
        }
    }
    v
}

pub fn report(prop: &str, v: &Verdict, describe: &dyn Fn(&str) -> String, max_report: usize) -> i64 {
    for (class, (n, ex)) in &v.known_by_class {
        println!("KNOWN-FINDING: property={prop} {class}: {} [{n} listed cases, e.g. {ex}]", describe(class));
    }
    let mut seen = std::collections::BTreeSet::new();
    let mut shown = 0;
    for f in &v.violations {
        if !seen.insert(f.class.clone()) || shown >= max_report {
            continue;
        }
        shown += 1;
        let path = crate::lab::write_replay(prop, &json!({"property": prop, "case": f.key, "class": f.class, "why": v.reason.get(&f.key), "detail": f.detail}));
        println!("VIOLATION property={prop} replay={path}");
        eprintln!("  [{}] {} ({})", f.class, f.key, v.reason.get(&f.key).cloned().unwrap_or_default());
    }
    v.violations.len() as i64
}
