//! C19 — WAL files are deleted only after a complete, lossless archive exists.
//! Fault enumeration on a real file system: WAL contents x eligible set x
//! per-file archive fault x archive-directory fault, through the real
//! WalCleaner (conservative mode) and WalArchiveRecovery.
use crate::lab::*;
use crate::sys::SysConfig;
use serde_json::{json, Value};
use snel_db::engine::core::wal::wal_archive::{WalArchive, WalArchiveBody, WalArchiveHeader};
use snel_db::engine::core::{EventId, WalArchiveRecovery, WalCleaner, WalEntry};
use snel_db::engine::types::ScalarValue;
use std::collections::{BTreeMap, BTreeSet};
use std::path::{Path, PathBuf};

#[derive(Debug, Clone, Copy, PartialEq, Eq, PartialOrd, Ord)]
enum Content {
    Empty,
    One,
    Three,
    Torn,
    /// five entries of which the second is torn inside a multi-byte character and glued to the
    /// third: one line that is not valid UTF-8, followed by two complete entries
    TornMid,
    /// a line of valid UTF-8 that is not an entry, between two entries
    BadJsonMid,
}
#[derive(Debug, Clone, Copy, PartialEq, Eq, PartialOrd, Ord)]
enum Fault {
    Ok,
    /// the archive file name already exists as a directory: writing this archive fails
    DirClash,
    /// a regular archive of the same name with the same entries already exists (re-run after a crash)
    SameArchive,
    /// a regular archive of the same name with *other* entries already exists
    OtherArchive,
}
#[derive(Debug, Clone, Copy, PartialEq, Eq, PartialOrd, Ord)]
enum DirFault {
    Present,
    Missing,
    IsFile,
}

fn value_alphabet() -> Vec<Value> {
    vec![
        json!(""), json!("a"), json!("é"), json!("null"), json!("true"), json!("123"), json!("1.5"), json!("[1,2]"), json!("{}"),
        json!("line\nbreak \"quoted\""), json!(0), json!(-1), json!(i64::MAX), json!(i64::MIN), json!(u64::MAX), json!(1.5), json!(1.0), json!(-0.0),
        json!(1e308), json!(5e-324), json!(true), json!(false), json!(null),
    ]
}

fn entry(seq: u64, ts: u64, vals: &[Value]) -> WalEntry {
    let mut payload = BTreeMap::new();
    for (i, v) in vals.iter().enumerate() {
        payload.insert(format!("f{i}"), ScalarValue::from(v.clone()));
    }
    WalEntry {
        timestamp: ts,
        context_id: format!("ctx-{seq}"),
        event_type: if seq % 2 == 0 { "a".into() } else { "tüpe".into() },
        payload,
        event_id: EventId::from_raw(0x1234_5678_9abc_0000 + seq),
    }
}

/// entries of log `log` under content class `c`; values rotate through the alphabet
fn entries_for(log: u64, c: Content, rot: usize) -> Vec<WalEntry> {
    let alpha = value_alphabet();
    let pick = |i: usize| alpha[(rot + i) % alpha.len()].clone();
    let base_ts = 1_700_000_000 + log * 10;
    match c {
        Content::Empty => vec![],
        Content::One => vec![entry(log * 10, base_ts, &[pick(0), pick(1)])],
        Content::TornMid => (0..5).map(|i| entry(log * 10 + i, base_ts + i, &[json!("café"), pick(i as usize)])).collect(),
        Content::BadJsonMid => (0..2).map(|i| entry(log * 10 + i, base_ts + i, &[pick(i as usize), json!("é")])).collect(),
        Content::Three | Content::Torn => (0..3).map(|i| entry(log * 10 + i, base_ts + i, &[pick(i as usize * 3), pick(i as usize * 3 + 1), pick(i as usize * 3 + 2)])).collect(),
    }
}

fn archive_name(log: u64, es: &[WalEntry]) -> String {
    let (s, e) = if es.is_empty() { (0, 0) } else { (es.iter().map(|e| e.timestamp).min().unwrap(), es.iter().map(|e| e.timestamp).max().unwrap()) };
    format!("wal-{log:05}-{s}-{e}.wal.zst")
}

fn write_archive(dir: &Path, shard: usize, log: u64, es: Vec<WalEntry>, name: &str) {
    let (s, e) = if es.is_empty() { (0, 0) } else { (es.iter().map(|e| e.timestamp).min().unwrap(), es.iter().map(|e| e.timestamp).max().unwrap()) };
    let a = WalArchive { header: WalArchiveHeader::new(shard, log, es.len() as u64, s, e, "zstd".into(), 3), body: WalArchiveBody::new(es) };
    let bytes = a.to_compressed_bytes().unwrap();
    std::fs::create_dir_all(dir).unwrap();
    std::fs::write(dir.join(name), bytes).unwrap();
}

#[derive(Debug, Clone)]
struct Case {
    logs: Vec<(Content, Fault)>,
    dirfault: DirFault,
    rot: usize,
}

struct CaseResult {
    violation: Option<(String, String)>, // (tag, description)
    outcome: String,
}

fn run_case(root: &Path, shard: usize, c: &Case) -> CaseResult {
    let wal = root.join(format!("wal/shard-{shard}"));
    let arch = root.join(format!("wal/archived/shard-{shard}"));
    std::fs::create_dir_all(&wal).unwrap();
    let n = c.logs.len() as u64; // eligible logs 0..n, log n is not eligible
    let mut original: BTreeMap<u64, Vec<Value>> = BTreeMap::new();
    let mut preexisting_other: Vec<(String, Vec<Value>)> = Vec::new();
    match c.dirfault {
        DirFault::Present => std::fs::create_dir_all(&arch).unwrap(),
        DirFault::Missing => {}
        DirFault::IsFile => {
            std::fs::create_dir_all(arch.parent().unwrap()).unwrap();
            std::fs::write(&arch, b"not a directory").unwrap();
        }
    }
    for log in 0..=n {
        let (content, fault) = if log < n { c.logs[log as usize] } else { (Content::One, Fault::Ok) };
        let mut es = entries_for(log, content, c.rot + log as usize * 5);
        let mut bytes: Vec<u8> = Vec::new();
        match content {
            Content::TornMid => {
                // e0 | first half of e1 cut inside the two-byte 'é' + e2 glued on | e3 | e4
                let lines: Vec<String> = es.iter().map(|e| serde_json::to_string(e).unwrap()).collect();
                bytes.extend(lines[0].as_bytes());
                bytes.push(b'\n');
                let l1 = lines[1].as_bytes();
                let cut = l1.windows(2).position(|w| w == "é".as_bytes()).map(|p| p + 1).unwrap_or(l1.len() / 2);
                bytes.extend(&l1[..cut]);
                bytes.extend(lines[2].as_bytes());
                bytes.push(b'\n');
                for l in &lines[3..] {
                    bytes.extend(l.as_bytes());
                    bytes.push(b'\n');
                }
                // the entries of this log are its complete lines
                es = vec![es[0].clone(), es[3].clone(), es[4].clone()];
            }
            Content::BadJsonMid => {
                bytes.extend(serde_json::to_string(&es[0]).unwrap().as_bytes());
                bytes.extend(b"\n{\"timestamp\": 12, \"context_id\": \"half\n");
                bytes.extend(serde_json::to_string(&es[1]).unwrap().as_bytes());
                bytes.push(b'\n');
            }
            _ => {
                for e in &es {
                    bytes.extend(serde_json::to_string(e).unwrap().as_bytes());
                    bytes.push(b'\n');
                }
                if content == Content::Torn {
                    bytes.extend(b"{\"timestamp\":1700000099,\"context_id\":\"torn\",\"event_ty");
                }
            }
        }
        std::fs::write(wal.join(format!("wal-{log:05}.log")), &bytes).unwrap();
        original.insert(log, es.iter().map(|e| serde_json::to_value(e).unwrap()).collect());
        if log < n && c.dirfault == DirFault::Present {
            let name = archive_name(log, &es);
            match fault {
                Fault::Ok => {}
                Fault::DirClash => std::fs::create_dir_all(arch.join(&name)).unwrap(),
                Fault::SameArchive => write_archive(&arch, shard, log, es.clone(), &name),
                // an empty log is archived as wal-N-0-0, which no non-empty archive can be called
                Fault::OtherArchive if es.is_empty() => {}
                Fault::OtherArchive => {
                    let other = vec![entry(900 + log, es.first().map_or(0, |e| e.timestamp), &[json!("earlier")])];
                    // same name requires the same min/max timestamps
                    let mut other = other;
                    if let (Some(f), Some(l)) = (es.first(), es.last()) {
                        other[0].timestamp = f.timestamp;
                        if l.timestamp != f.timestamp {
                            other.push(entry(950 + log, l.timestamp, &[json!("earlier2")]));
                        }
                    }
                    preexisting_other.push((name.clone(), other.iter().map(|e| serde_json::to_value(e).unwrap()).collect()));
                    write_archive(&arch, shard, log, other, &name);
                }
            }
        }
    }
    // ---- the real code
    let cleaner = WalCleaner::new(shard);
    cleaner.cleanup_up_to(n);
    let remaining: BTreeSet<u64> = std::fs::read_dir(&wal)
        .unwrap()
        .flatten()
        .filter_map(|e| e.file_name().to_string_lossy().strip_prefix("wal-").and_then(|s| s.strip_suffix(".log")).and_then(|s| s.parse().ok()))
        .collect();
    let recovered: Vec<Value> = if arch.is_dir() {
        match WalArchiveRecovery::new(shard, arch.clone()).recover_all() {
            Ok(v) => v.iter().map(|e| serde_json::to_value(e).unwrap()).collect(),
            Err(e) => vec![json!({"recover_error": e.to_string()})],
        }
    } else {
        vec![]
    };
    // ---- oracle
    let any_fault = c.dirfault == DirFault::IsFile
        || (c.dirfault == DirFault::Present && c.logs.iter().any(|(_, f)| *f == Fault::DirClash));
    let deleted: Vec<u64> = (0..=n).filter(|l| !remaining.contains(l)).collect();
    let outcome = format!("deleted={deleted:?} recovered={}", recovered.len());
    let mut violation = None;
    if deleted.contains(&n) {
        violation = Some(("ineligible-deleted".to_string(), format!("log {n} (>= keep_from) was deleted")));
    } else if any_fault {
        if !deleted.is_empty() {
            violation = Some(("deleted-despite-archive-failure".to_string(), format!("archiving failed for at least one eligible log, yet logs {deleted:?} were deleted")));
        }
    } else if c.logs.iter().any(|(ct, _)| matches!(ct, Content::TornMid | Content::BadJsonMid)) && deleted.is_empty() {
        // a log with an unreadable line in the middle may be refused; then nothing is deleted
    } else {
        // every deleted log must be fully recoverable; with no fault all eligible logs are deleted
        if deleted.len() as u64 != n {
            violation = Some(("eligible-not-deleted".to_string(), format!("no fault injected, logs deleted: {deleted:?} of {n}")));
        }
        let mut expect: Vec<Value> = Vec::new();
        for l in 0..n {
            expect.extend(original[&l].iter().cloned());
        }
        // entries that were in a pre-existing archive of the same name count as archived entries too
        let lost_earlier: Vec<&Value> = preexisting_other.iter().flat_map(|(_, es)| es.iter()).filter(|e| !recovered.contains(e)).collect();
        let got_new: Vec<Value> = recovered.iter().filter(|e| !preexisting_other.iter().any(|(_, es)| es.contains(e))).cloned().collect();
        if got_new != expect {
            let firstdiff = got_new.iter().zip(expect.iter()).position(|(a, b)| a != b);
            violation = Some((
                "recovered-differs".to_string(),
                format!(
                    "recovered {} entries, expected {} in log order; first difference at {:?}: got {:?} want {:?}",
                    got_new.len(),
                    expect.len(),
                    firstdiff,
                    firstdiff.and_then(|i| got_new.get(i)),
                    firstdiff.and_then(|i| expect.get(i))
                ),
            ));
        } else if !lost_earlier.is_empty() {
            violation = Some((
                "archive-name-collision-overwrites".to_string(),
                format!("{} entries of a pre-existing archive with the same file name are no longer recoverable", lost_earlier.len()),
            ));
        }
    }
    CaseResult { violation, outcome }
}

/// child: all cases in one process (one conservative-mode CONFIG), each under its own shard number
pub fn child(root: &str, tier: &str) -> i32 {
    let root = PathBuf::from(root);
    let cfg = SysConfig { conservative: true, ..Default::default() };
    let cfg_path = cfg.write(&root);
    unsafe { std::env::set_var("SNELDB_CONFIG", &cfg_path) };
    crate::interpose::set_clock_ms(BASE_CLOCK_MS);
    assert!(snel_db::shared::config::CONFIG.wal.conservative_mode);
    let contents_all = [Content::Empty, Content::One, Content::Three, Content::Torn, Content::TornMid, Content::BadJsonMid];
    let faults = [Fault::Ok, Fault::DirClash, Fault::SameArchive, Fault::OtherArchive];
    let dirfaults = [DirFault::Present, DirFault::Missing, DirFault::IsFile];
    let maxn = if tier == "quick" { 3 } else { 4 };
    let mut cases = Vec::new();
    for n in 0..=maxn {
        // the two mid-file damage classes are combined with everything up to three eligible logs
        let contents: &[Content] = if n <= 2 || (n == 3 && tier != "quick") { &contents_all } else { &contents_all[..4] };
        let mut combos: Vec<Vec<(Content, Fault)>> = vec![vec![]];
        for _ in 0..n {
            let mut next = Vec::new();
            for c in &combos {
                for ct in contents.iter().copied() {
                    for f in faults {
                        let mut c2 = c.clone();
                        c2.push((ct, f));
                        next.push(c2);
                    }
                }
            }
            combos = next;
        }
        for (ci, logs) in combos.into_iter().enumerate() {
            for d in dirfaults {
                // per-file faults need a present archive directory
                if d != DirFault::Present && logs.iter().any(|(_, f)| *f != Fault::Ok) {
                    continue;
                }
                cases.push(Case { logs: logs.clone(), dirfault: d, rot: ci % 23 });
            }
        }
    }
    // a backlog: many eligible logs in one pass (archiving had failed for a while, then the directory was repaired)
    for n in [16usize, 17, 20, 33, 65] {
        let logs: Vec<(Content, Fault)> = (0..n).map(|i| (if i % 3 == 0 { Content::Three } else if i % 3 == 1 { Content::One } else { Content::Torn }, Fault::Ok)).collect();
        cases.push(Case { logs, dirfault: DirFault::Present, rot: n % 23 });
    }
    let mut viols: BTreeMap<String, (usize, String, String)> = BTreeMap::new();
    let mut outcomes: BTreeSet<String> = BTreeSet::new();
    let mut samples = Vec::new();
    for (i, c) in cases.iter().enumerate() {
        let r = run_case(&root, i, c);
        outcomes.insert(r.outcome.clone());
        if samples.len() < 6 && i % (cases.len() / 6).max(1) == 0 {
            samples.push(json!({"case": format!("{c:?}"), "outcome": r.outcome}));
        }
        if let Some((tag, what)) = r.violation {
            let e = viols.entry(tag).or_insert((0, format!("{c:?}"), what));
            e.0 += 1;
        }
        let _ = std::fs::remove_dir_all(root.join(format!("wal/shard-{i}")));
        let _ = std::fs::remove_dir_all(root.join(format!("wal/archived/shard-{i}")));
        let _ = std::fs::remove_file(root.join(format!("wal/archived/shard-{i}")));
    }
    let out = json!({
        "cases": cases.len(),
        "outcomes": outcomes.len(),
        "samples": samples,
        "violations": viols.iter().map(|(k, v)| json!({"tag": k, "count": v.0, "case": v.1, "what": v.2})).collect::<Vec<_>>(),
    });
    println!("{}", out);
    0
}

pub fn check(tier: &str) -> i32 {
    let t0 = std::time::Instant::now();
    let kf = crate::known::load();
    let scratch = Scratch::new("c19");
    let exe = crate::explore::self_exe();
    let out = std::process::Command::new(exe).arg("c19child").arg(scratch.dir.join("db")).arg(tier).env_remove("SNELDB_CONFIG").output();
    let out = match out {
        Ok(o) if o.status.success() => o,
        Ok(o) => {
            eprintln!("MACHINERY: c19 child failed: {}", String::from_utf8_lossy(&o.stderr).chars().take(1500).collect::<String>());
            return 2;
        }
        Err(e) => {
            eprintln!("MACHINERY: {e}");
            return 2;
        }
    };
    let v: Value = match serde_json::from_slice(&out.stdout) {
        Ok(v) => v,
        Err(e) => {
            eprintln!("MACHINERY: bad child output: {e}");
            return 2;
        }
    };
    let mut n_viol = 0;
    for x in v["violations"].as_array().cloned().unwrap_or_default() {
        let tag = x["tag"].as_str().unwrap_or("");
        if kf.is_known("C19", tag) {
            println!("KNOWN-FINDING: property=C19 {tag}: {} [{} cases, e.g. {}]", kf.describe("C19", tag), x["count"], x["case"]);
        } else {
            n_viol += 1;
            let path = write_replay("C19", &x);
            println!("VIOLATION property=C19 replay={path}");
            eprintln!("  [{tag}] {} :: {} ({} cases)", x["case"], x["what"], x["count"]);
        }
    }
    write_evidence(&Evidence {
        property_id: "C19".into(),
        tier: tier.into(),
        seed: seed(),
        level: "fault_enumeration".into(),
        coverage: json!({
            "evaluations": v["cases"],
            "distinct_nontrivial": v["outcomes"],
            "rule": "all WAL directories with 0..n eligible logs (+1 ineligible), per log content in {empty, 1 entry, 3 entries over a 23-value payload alphabet, 3 entries + torn last line, 5 entries with the second torn inside a multi-byte character and glued to the third (a line that is not UTF-8 followed by complete entries), 2 entries around a malformed line; the last two for up to 2 (thorough 3) eligible logs} x per-log archive fault in {none, archive name pre-created as a directory, same archive already present, other archive with the same name present} x archive dir in {present, missing, a regular file}; plus backlogs of 16, 17, 20, 33 and 65 eligible logs in one pass; through WalCleaner::new(shard).cleanup_up_to(n) in conservative mode, then WalArchiveRecovery::recover_all; distinct_nontrivial = distinct (deleted set, recovered count) outcomes",
            "samples": v["samples"],
            "exhaustive": true,
        }),
        assumptions: vec![
            "running as root: permission faults are realised as type clashes (directory in place of a file, file in place of a directory)".into(),
            "archive and WAL directories are the configured ones (WalCleaner::new), as in production".into(),
        ],
        wall_s: t0.elapsed().as_secs_f64(),
        violations: n_viol,
    });
    if n_viol == 0 { 0 } else { 1 }
}
