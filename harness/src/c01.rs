//! C01 — applied writes survive any process crash and restart, exactly once.
//! Exhaustive histories over a small alphabet x every FS-mutation boundary of
//! the last lifetime as crash point (crashx), judged against RefDb.
use crate::job::{JobResult, Op, SnapMode};
use crate::lab::*;
use crate::c01model::Model;
use crate::sys::SysConfig;
use serde::{Deserialize, Serialize};
use serde_json::json;
use std::collections::{BTreeMap, BTreeSet, HashSet};
use std::path::Path;
use std::sync::Mutex;

#[derive(Debug, Clone, Copy, PartialEq, Eq, Serialize, Deserialize, Hash, PartialOrd, Ord)]
pub enum Tok {
    /// STORE type a, context c0
    Sa,
    /// STORE type b, context c1
    Sb,
    /// STOREs (type a, c0) until the memtable of c0's shard rotates once
    Fill,
    Flush,
    Compact,
    /// clean shutdown (flush + WAL close), then a new process
    Restart,
    /// the process is killed at a quiescent point (no shutdown), then a new process
    Kill,
}

pub const TYPES: [&str; 2] = ["a", "b"];
pub const CTXS: [&str; 2] = ["c0", "c1"];

pub fn all_histories(alphabet: &[Tok], depth: usize) -> Vec<Vec<Tok>> {
    let mut out: Vec<Vec<Tok>> = vec![vec![]];
    let mut frontier: Vec<Vec<Tok>> = vec![vec![]];
    for _ in 0..depth {
        let mut next = Vec::new();
        for h in &frontier {
            for t in alphabet {
                let mut h2 = h.clone();
                h2.push(*t);
                next.push(h2);
            }
        }
        out.extend(next.iter().cloned());
        frontier = next;
    }
    out
}

/// Only leaves are executed (each execution checks every prefix), plus the
/// pruning of histories whose extra ops are no-ops by construction.
pub fn leaves(alphabet: &[Tok], depth: usize) -> Vec<Vec<Tok>> {
    all_histories(alphabet, depth).into_iter().filter(|h| h.len() == depth).collect()
}

#[derive(Debug, Clone, Serialize, Deserialize)]
pub struct Plan {
    pub lives: Vec<LifeSpec>,
    /// per lifetime, per op index: events acknowledged+applied before that op starts
    pub acked_before: Vec<Vec<Vec<Ev>>>,
    /// per lifetime, per op index: the event this op stores (in flight while it runs)
    pub inflight: Vec<Vec<Option<Ev>>>,
    /// per lifetime: indexes of Observe ops and the events expected there
    pub observes: Vec<Vec<(usize, Vec<Ev>)>>,
    pub all: Vec<Ev>,
}

pub fn plan(history: &[Tok], cfg: &SysConfig, last_snap: SnapMode, observe_each: bool) -> Plan {
    let mut lives: Vec<LifeSpec> = Vec::new();
    let mut acked_before: Vec<Vec<Vec<Ev>>> = Vec::new();
    let mut inflight: Vec<Vec<Option<Ev>>> = Vec::new();
    let mut observes: Vec<Vec<(usize, Vec<Ev>)>> = Vec::new();
    let mut acked: Vec<Ev> = Vec::new();
    let mut next_k = 0i64;

    let mut ops: Vec<Op> = Vec::new();
    let mut ab: Vec<Vec<Ev>> = Vec::new();
    let mut inf: Vec<Option<Ev>> = Vec::new();
    let mut obs: Vec<(usize, Vec<Ev>)> = Vec::new();
    // number of events in c0's memtable since its last rotation is not known
    // to the parent; Fill simply stores `capacity` events, which guarantees at
    // least one rotation of that shard.
    let push = |ops: &mut Vec<Op>, ab: &mut Vec<Vec<Ev>>, inf: &mut Vec<Option<Ev>>, op: Op, acked: &Vec<Ev>, e: Option<Ev>| {
        ops.push(op);
        ab.push(acked.clone());
        inf.push(e);
    };
    for t in TYPES {
        push(&mut ops, &mut ab, &mut inf, Op::Cmd { text: define_cmd(t) }, &acked, None);
    }
    let suite_q = suite(&TYPES, &CTXS);
    for tok in history {
        match tok {
            Tok::Sa | Tok::Sb => {
                let e = if *tok == Tok::Sa {
                    Ev { k: next_k, typ: "a".into(), ctx: "c0".into() }
                } else {
                    Ev { k: next_k, typ: "b".into(), ctx: "c1".into() }
                };
                next_k += 1;
                push(&mut ops, &mut ab, &mut inf, Op::Cmd { text: e.store_cmd() }, &acked, Some(e.clone()));
                acked.push(e);
            }
            Tok::Fill => {
                for _ in 0..cfg.capacity() {
                    let e = Ev { k: next_k, typ: "a".into(), ctx: "c0".into() };
                    next_k += 1;
                    push(&mut ops, &mut ab, &mut inf, Op::Cmd { text: e.store_cmd() }, &acked, Some(e.clone()));
                    acked.push(e);
                }
            }
            Tok::Flush => push(&mut ops, &mut ab, &mut inf, Op::Cmd { text: "FLUSH".into() }, &acked, None),
            Tok::Compact => push(&mut ops, &mut ab, &mut inf, Op::CompactAll, &acked, None),
            Tok::Restart | Tok::Kill => {
                if *tok == Tok::Restart {
                    push(&mut ops, &mut ab, &mut inf, Op::Shutdown, &acked, None);
                } else {
                    push(&mut ops, &mut ab, &mut inf, Op::KillPoint, &acked, None);
                }
                lives.push(LifeSpec { ops: std::mem::take(&mut ops), snap: SnapMode::Off, fsmon: true });
                acked_before.push(std::mem::take(&mut ab));
                inflight.push(std::mem::take(&mut inf));
                observes.push(std::mem::take(&mut obs));
            }
        }
        if observe_each || *tok == Tok::Restart || *tok == Tok::Kill {
            obs.push((ops.len(), acked.clone()));
            push(&mut ops, &mut ab, &mut inf, Op::Observe { queries: suite_q.clone() }, &acked, None);
        }
    }
    if !observe_each {
        obs.push((ops.len(), acked.clone()));
        push(&mut ops, &mut ab, &mut inf, Op::Observe { queries: suite_q.clone() }, &acked, None);
    }
    if last_snap != SnapMode::Off {
        // crash while idle after the last command
        push(&mut ops, &mut ab, &mut inf, Op::Snap, &acked, None);
    }
    lives.push(LifeSpec { ops, snap: last_snap, fsmon: true });
    acked_before.push(ab);
    inflight.push(inf);
    observes.push(obs);
    Plan { lives, acked_before, inflight, observes, all: acked }
}

#[derive(Debug, Clone, Serialize, Deserialize, PartialEq, Eq, PartialOrd, Ord, Hash)]
pub struct Disc {
    /// lost | dup | corrupt | error | count | replay | foreign
    pub class: String,
    pub detail: String,
}

/// Compare an observation with the expected acknowledged set (+ optional in-flight event).
pub fn judge(o: &Obs, acked: &[Ev], inflight: Option<&Ev>) -> Vec<Disc> {
    let mut d = Vec::new();
    for e in &o.errors {
        d.push(Disc { class: "error".into(), detail: e.clone() });
    }
    let m = mult(o);
    let mut known: BTreeMap<i64, &Ev> = acked.iter().map(|e| (e.k, e)).collect();
    for e in acked {
        match m.get(&e.k).copied().unwrap_or(0) {
            1 => {}
            0 => d.push(Disc { class: "lost".into(), detail: format!("k={} absent from QUERY {}", e.k, e.typ) }),
            n => d.push(Disc { class: "dup".into(), detail: format!("k={} returned {n} times by QUERY", e.k) }),
        }
    }
    if let Some(e) = inflight {
        if m.get(&e.k).copied().unwrap_or(0) > 1 {
            d.push(Disc { class: "dup".into(), detail: format!("in-flight k={} returned {} times", e.k, m[&e.k]) });
        }
        known.insert(e.k, e);
    }
    for (k, n) in &m {
        if !known.contains_key(k) {
            d.push(Disc { class: "foreign".into(), detail: format!("k={k} x{n} was never stored") });
        }
    }
    // payload / context / type integrity
    for (k, rows) in &o.detail {
        if let Some(e) = known.get(k) {
            for (ty, c, s) in rows {
                if *ty != e.typ || *c != e.ctx || *s != e.payload_sig() {
                    d.push(Disc { class: "corrupt".into(), detail: format!("k={k} came back as type={ty} ctx={c} s={s}") });
                }
            }
        }
    }
    // COUNT agrees with the number of expected events per type
    for t in TYPES {
        let want_lo = acked.iter().filter(|e| e.typ == t).count() as i64;
        let want_hi = want_lo + inflight.map_or(0, |e| (e.typ == t) as i64);
        let got = o.count.get(t).copied().unwrap_or(0);
        if got < want_lo || got > want_hi {
            d.push(Disc { class: "count".into(), detail: format!("COUNT {t} = {got}, expected {want_lo}..={want_hi}") });
        }
    }
    // REPLAY membership (order is C04's business): each acked event of the context exactly once
    for c in CTXS {
        let got = o.replay.get(c).cloned().unwrap_or_default();
        let mut gm: BTreeMap<i64, usize> = BTreeMap::new();
        for (_, k) in &got {
            *gm.entry(*k).or_insert(0) += 1;
        }
        for e in acked.iter().filter(|e| e.ctx == c) {
            let n = gm.get(&e.k).copied().unwrap_or(0);
            if n != 1 {
                d.push(Disc { class: "replay".into(), detail: format!("REPLAY FOR {c}: k={} x{n}", e.k) });
            }
        }
        for (k, n) in &gm {
            let is_known = acked.iter().any(|e| e.k == *k && e.ctx == c) || inflight.map_or(false, |e| e.k == *k && e.ctx == c);
            if !is_known {
                d.push(Disc { class: "foreign".into(), detail: format!("REPLAY FOR {c}: k={k} x{n} not stored there") });
            } else if *n > 1 && inflight.map_or(false, |e| e.k == *k) {
                d.push(Disc { class: "replay".into(), detail: format!("REPLAY FOR {c}: in-flight k={k} x{n}") });
            }
        }
    }
    d
}

#[derive(Debug, Clone, Serialize, Deserialize)]
pub struct Finding {
    pub history: Vec<Tok>,
    pub cfg: SysConfig,
    /// None = observation inside the history (no crash)
    pub crash: Option<CrashPoint>,
    pub life: usize,
    pub op: usize,
    pub discs: Vec<Disc>,
    /// listed defects that explain every deviation (empty + violation None = unclassified)
    pub known: Vec<String>,
    /// why the protocol model does not explain the observation
    pub violation: Option<String>,
}

#[derive(Debug, Clone, Serialize, Deserialize)]
pub struct CrashPoint {
    pub snap: usize,
    pub kind: String,
    pub path: String,
    pub gates_passed: Vec<String>,
}

/// Model states around one op of one lifetime.
#[derive(Debug, Clone)]
pub struct OpStates {
    pub pre: Model,
    pub mid: Option<Model>,
    pub post: Model,
    /// events whose segment files are being written / merged by this op
    pub blast: BTreeSet<i64>,
    pub flushes: bool,
    pub compacts: bool,
}

/// Replays the executed history through the protocol model (compaction label
/// sets are taken from the observed live lists).
pub fn trace_model(p: &Plan, cfg: &SysConfig, results: &[JobResult], route: &BTreeMap<String, usize>) -> Vec<Vec<OpStates>> {
    let mut m = Model::new(cfg.capacity(), cfg.shards, route.clone());
    let mut out = Vec::new();
    for (li, life) in p.lives.iter().enumerate() {
        if li > 0 {
            m.restart();
        }
        let mut v = Vec::new();
        for (oi, op) in life.ops.iter().enumerate() {
            let pre = m.clone();
            let mut mid = None;
            let mut blast = BTreeSet::new();
            let mut flushes = false;
            let mut compacts = false;
            match op {
                Op::Cmd { text } if text.starts_with("STORE") => {
                    if let Some(e) = &p.inflight[li][oi] {
                        let mut mm = m.clone();
                        if let Some(w) = mm.store_mid(e) {
                            blast.extend(w.events.iter().map(|e| e.k));
                            flushes = true;
                            mid = Some(mm);
                        }
                        m.store(e);
                    }
                }
                Op::Cmd { text } if text.starts_with("FLUSH") => {
                    let mut mm = m.clone();
                    for w in mm.flush_cmd_mid() {
                        blast.extend(w.events.iter().map(|e| e.k));
                    }
                    mid = Some(mm);
                    flushes = true;
                    m.flush_cmd();
                }
                Op::Shutdown => {
                    let mut mm = m.clone();
                    for w in mm.flush_cmd_mid() {
                        blast.extend(w.events.iter().map(|e| e.k));
                    }
                    mid = Some(mm);
                    flushes = true;
                    m.flush_cmd();
                }
                Op::CompactAll | Op::Compact { .. } => {
                    compacts = true;
                    for s in &m.shards {
                        blast.extend(s.seg_events.iter().map(|e| e.k));
                    }
                    if let Some(step) = results.get(li).and_then(|r| r.steps.get(oi)) {
                        m.compacted(&step.live);
                    }
                }
                _ => {}
            }
            v.push(OpStates { pre, mid, post: m.clone(), blast, flushes, compacts });
        }
        out.push(v);
    }
    out
}

/// Classification of a failed observation against the protocol model.
/// Ok(tags) = every deviation is a listed defect; Err(reason) = new violation.
pub fn classify(
    o: &Obs,
    acked: &[Ev],
    inflight: Option<&Ev>,
    cands: &[&Model],
    after_restart: bool,
    blast: &BTreeSet<i64>,
    in_window: bool,
    partial_retire: bool,
    // buffered WAL (weak crash clause): events whose WAL line may still sit in the writer's
    // user-space buffer, with the shard of each; they may be lost, but only as a per-shard suffix
    may_be_lost: &BTreeMap<i64, usize>,
) -> Result<BTreeSet<String>, String> {
    let mut tags = BTreeSet::new();
    let vis = |m: &Model, k: i64| if after_restart { m.visible_after_restart(k) } else { m.visible_now(k) };
    let qm = mult(o);
    let mut garbage_types: BTreeSet<String> = BTreeSet::new();
    for e in &o.errors {
        if in_window && e.contains("row without integer k") {
            tags.insert("KF-orphan-dir".to_string());
            for t in TYPES {
                if e.contains(&format!("\"event_type\": String(\"{t}\")")) || e.starts_with(&format!("QUERY {t}")) {
                    garbage_types.insert(t.to_string());
                }
            }
        } else {
            return Err(format!("error outside a flush/compaction window or of an unlisted kind: {e}"));
        }
    }
    let mut lo: BTreeMap<String, usize> = BTreeMap::new();
    let mut hi: BTreeMap<String, usize> = BTreeMap::new();
    let mut events: Vec<&Ev> = acked.iter().collect();
    if let Some(e) = inflight {
        events.push(e);
    }
    for e in &events {
        let is_inflight = inflight.map_or(false, |x| x.k == e.k);
        let mut allowed: BTreeSet<usize> = cands.iter().map(|m| vis(m, e.k)).collect();
        if is_inflight {
            allowed.insert(0);
            allowed.insert(1);
        }
        if in_window {
            // a partial directory in the live list: its rows are read as garbage or twice,
            // or the reader gives up and events of that type are not returned at all
            let extra: Vec<usize> = allowed.iter().map(|a| a + 1).collect();
            allowed.extend(extra);
            allowed.insert(0);
        }
        let buffered_loss_ok = may_be_lost.contains_key(&e.k);
        if buffered_loss_ok {
            allowed.insert(0);
        }
        let dup_ok = cands.iter().any(|m| m.partial_dup().contains(&e.k));
        if partial_retire || dup_ok {
            // a compaction round has committed the batch of one event type and not yet reclaimed
            // its inputs: after a restart the drained inputs are read again for that type
            let extra: Vec<usize> = allowed.iter().map(|a| a + 1).collect();
            allowed.extend(extra);
        }
        let _ = blast;
        let got = qm.get(&e.k).copied().unwrap_or(0);
        // the selection path drops repeated event ids, so a duplicate may show as 1 here
        let ok = allowed.contains(&got) || (got == 1 && allowed.iter().any(|a| *a >= 1));
        if !ok {
            return Err(format!("k={} visible {got} times; model allows {allowed:?}", e.k));
        }
        if got == 0 && !is_inflight && !buffered_loss_ok {
            tags.insert(if in_window && cands.iter().all(|m| vis(m, e.k) > 0) { "KF-orphan-dir".to_string() } else { "KF-P1-wal-unlinked".to_string() });
        }
        if got > 1 {
            tags.insert(if in_window { "KF-window-dup".to_string() } else if partial_retire || dup_ok { "KF-partial-retire-dup".to_string() } else { "KF-stale-wal-dup".to_string() });
        }
        *lo.entry(e.typ.clone()).or_insert(0) += allowed.iter().min().copied().unwrap_or(0);
        *hi.entry(e.typ.clone()).or_insert(0) += allowed.iter().max().copied().unwrap_or(0);
        // REPLAY
        let rgot = o.replay.get(&e.ctx).map_or(0, |v| v.iter().filter(|(_, k)| *k == e.k).count());
        let rok = allowed.contains(&rgot) || (rgot == 1 && allowed.iter().any(|a| *a >= 1));
        if !rok {
            return Err(format!("REPLAY: k={} x{rgot}; model allows {allowed:?}", e.k));
        }
        if rgot > 1 {
            tags.insert(if in_window { "KF-window-dup".to_string() } else if partial_retire || dup_ok { "KF-partial-retire-dup".to_string() } else { "KF-stale-wal-dup".to_string() });
        }
        if rgot == 0 && !is_inflight && !buffered_loss_ok {
            tags.insert(if in_window && cands.iter().all(|m| vis(m, e.k) > 0) { "KF-orphan-dir".to_string() } else { "KF-P1-wal-unlinked".to_string() });
        }
    }
    // weak crash clause of a buffered WAL: what survives is a per-shard prefix of what was applied
    if !may_be_lost.is_empty() && !in_window {
        let mut gone: BTreeMap<usize, i64> = BTreeMap::new();
        let mut ks: Vec<(&i64, &usize)> = may_be_lost.iter().collect();
        ks.sort();
        for (k, shard) in ks {
            // events the protocol model already expects to be lost (listed WAL-id drift) are not part of the prefix argument
            if !cands.iter().all(|m| vis(m, *k) > 0) {
                continue;
            }
            let got = qm.get(k).copied().unwrap_or(0);
            if got == 0 {
                gone.entry(*shard).or_insert(*k);
            } else if let Some(first) = gone.get(shard) {
                return Err(format!("buffered WAL: k={k} survived the crash although the earlier k={first} of the same shard did not (not a prefix)"));
            }
        }
    }
    for (k, n) in &qm {
        if !events.iter().any(|e| e.k == *k) {
            return Err(format!("k={k} x{n} was never stored"));
        }
    }
    for (k, rows) in &o.detail {
        if let Some(e) = events.iter().find(|e| e.k == *k) {
            for (ty, c, s) in rows {
                if *ty != e.typ || *c != e.ctx || *s != e.payload_sig() {
                    if in_window {
                        tags.insert("KF-orphan-dir".to_string());
                    } else {
                        return Err(format!("k={k} came back as type={ty} ctx={c} s={s}"));
                    }
                }
            }
        }
    }
    for t in TYPES {
        let got = o.count.get(t).copied().unwrap_or(0) as usize;
        let l = lo.get(t).copied().unwrap_or(0);
        let mut h = hi.get(t).copied().unwrap_or(0);
        if in_window {
            // rows of a partially written directory are counted too
            h += events.len();
        }
        if got < l || got > h {
            return Err(format!("COUNT {t} = {got}; model allows {l}..={h}"));
        }
        let spec = acked.iter().filter(|e| e.typ == t).count();
        if got > spec + inflight.map_or(0, |e| (e.typ == t) as usize) {
            let dup_t = events.iter().any(|e| e.typ == t && cands.iter().any(|m| m.partial_dup().contains(&e.k)));
            tags.insert(if in_window { "KF-window-dup".to_string() } else if partial_retire || dup_t { "KF-partial-retire-dup".to_string() } else { "KF-stale-wal-dup".to_string() });
        }
        let lost_by_buffer = events.iter().filter(|e| e.typ == t && may_be_lost.contains_key(&e.k) && qm.get(&e.k).copied().unwrap_or(0) == 0).count();
        if got + lost_by_buffer < spec {
            tags.insert(if in_window { "KF-orphan-dir".to_string() } else { "KF-P1-wal-unlinked".to_string() });
        }
    }
    let _ = garbage_types;
    Ok(tags)
}

#[derive(Default)]
pub struct Stats {
    pub histories: usize,
    pub lifetimes: usize,
    pub ops: usize,
    pub observations: usize,
    pub snapshots: usize,
    pub distinct_snapshots: usize,
    pub recoveries: usize,
    pub memo_hits: usize,
    pub fs_events: u64,
    pub monitor_checks: u64,
    pub outcomes: BTreeSet<String>,
    pub machinery: Vec<String>,
    /// buffered-WAL crash points at which applied events were lost as a per-shard suffix (allowed)
    pub buffered_suffix_losses: usize,
    pub buffered_recoveries: usize,
}

/// Protocol phase of a crash point: for every shard the last flush/compaction
/// gate passed before FS event `seq` (gates are harness-observed facts about
/// the schedule, independent of what recovery later returns).
pub fn phase_of(res: &JobResult, seq: u64) -> Vec<String> {
    let mut last: BTreeMap<usize, String> = BTreeMap::new();
    for g in &res.gates {
        if g.fs_seq > seq || g.gate.starts_with("wal.") {
            continue;
        }
        let done = g.gate == "flush.task_done" || g.gate == "compact.before_reclaim";
        if done {
            last.insert(g.shard, "idle".into());
        } else {
            last.insert(g.shard, format!("{}", g.gate));
        }
    }
    last.into_iter().map(|(s, g)| format!("{s}:{g}")).collect()
}

/// True when, at FS event `seq`, some shard is inside a compaction round that has already
/// swapped the index for one batch (one event type) and has not reached the reclaim step.
pub fn partially_committed_round(res: &JobResult, seq: u64) -> bool {
    let mut swapped: BTreeMap<usize, bool> = BTreeMap::new();
    for g in &res.gates {
        if g.fs_seq > seq {
            continue;
        }
        match g.gate.as_str() {
            "compact.index_swapped" => {
                swapped.insert(g.shard, true);
            }
            "compact.before_reclaim" => {
                swapped.insert(g.shard, false);
            }
            _ => {}
        }
    }
    swapped.values().any(|b| *b)
}

/// context -> shard for this shard count: the engine's own routing function
/// (observed, not modelled: C12 checks it separately).
pub fn route_of(cfg: &SysConfig) -> BTreeMap<String, usize> {
    use std::hash::{Hash, Hasher};
    let mut m = BTreeMap::new();
    for c in CTXS {
        let mut h = std::collections::hash_map::DefaultHasher::new();
        c.hash(&mut h);
        m.insert(c.to_string(), (h.finish() as usize) % cfg.shards);
    }
    m
}

fn rel(path: &str) -> String {
    match path.find("/db/") {
        Some(i) => path[i + 4..].to_string(),
        None => path.to_string(),
    }
}

/// Execute one history; returns findings (judged, unclassified).
pub fn run_history(
    dir: &Path,
    history: &[Tok],
    cfg: &SysConfig,
    snap: SnapMode,
    memo: &Mutex<HashSet<String>>,
    stats: &Mutex<Stats>,
    monitor_out: &Mutex<Vec<(Vec<Tok>, String)>>,
) -> Vec<Finding> {
    let p = plan(history, cfg, snap, true);
    let mut findings = Vec::new();
    let results = match run_lifetimes(dir, cfg, 7, &p.lives, false) {
        Ok(r) => r,
        Err(e) => {
            stats.lock().unwrap().machinery.push(format!("{history:?}: {e}"));
            return findings;
        }
    };
    {
        let mut st = stats.lock().unwrap();
        st.histories += 1;
        st.lifetimes += results.len();
    }
    let route: BTreeMap<String, usize> = route_of(cfg);
    let states = trace_model(&p, cfg, &results, &route);
    for (li, res) in results.iter().enumerate() {
        if let Some(e) = &res.error {
            findings.push(Finding {
                history: history.to_vec(),
                cfg: cfg.clone(),
                crash: None,
                life: li,
                op: 0,
                discs: vec![Disc { class: "error".into(), detail: e.clone() }],
                known: vec![],
                violation: Some(e.clone()),
            });
            continue;
        }
        {
            let mut st = stats.lock().unwrap();
            st.ops += res.steps.len();
            st.fs_events += res.fs_events;
            st.monitor_checks += res.monitor_checks;
        }
        for v in &res.monitor {
            monitor_out.lock().unwrap().push((history.to_vec(), v.clone()));
        }
        for (opi, expect) in &p.observes[li] {
            let Some(step) = res.steps.get(*opi) else { continue };
            let o = parse_obs(&step.replies, &TYPES, &CTXS);
            let d = judge(&o, expect, None);
            let mut st = stats.lock().unwrap();
            st.observations += 1;
            st.outcomes.insert(format!("{:?}", (&o.query, &o.count)));
            drop(st);
            if !d.is_empty() {
                let st = &states[li][*opi];
                let (known, violation) = match classify(&o, expect, None, &[&st.pre], false, &BTreeSet::new(), false, false, &BTreeMap::new()) {
                    Ok(t) => (t.into_iter().collect(), None),
                    Err(e) => (vec![], Some(e)),
                };
                findings.push(Finding { history: history.to_vec(), cfg: cfg.clone(), crash: None, life: li, op: *opi, discs: d, known, violation });
            }
        }
        // steps that answered with an error status
        for (si, step) in res.steps.iter().enumerate() {
            if step.blocked {
                findings.push(Finding {
                    history: history.to_vec(),
                    cfg: cfg.clone(),
                    crash: None,
                    life: li,
                    op: si,
                    discs: vec![Disc { class: "error".into(), detail: "command blocked (no answer within the virtual horizon)".into() }],
                    known: vec![],
                    violation: Some("command blocked".into()),
                });
            }
            if let Some(Op::Cmd { .. }) = p.lives[li].ops.get(si) {
                if let Some(r) = step.replies.first() {
                    if !r.ok() {
                        findings.push(Finding {
                            history: history.to_vec(),
                            cfg: cfg.clone(),
                            crash: None,
                            life: li,
                            op: si,
                            discs: vec![Disc { class: "error".into(), detail: format!("command answered {} {} {:?}", r.status, r.message, r.failure) }],
                            known: vec![],
                            violation: Some(format!("command answered {} {}", r.status, r.message)),
                        });
                    }
                }
            }
        }
    }
    // crash points of the last lifetime
    let li = results.len() - 1;
    let last = &results[li];
    if snap != SnapMode::Off && last.error.is_none() {
        let snapdir = dir.join(format!("snap{li}"));
        let kept: Vec<_> = last.snaps.iter().filter(|s| !s.dup).collect();
        {
            let mut st = stats.lock().unwrap();
            st.snapshots += last.snaps.len();
            st.distinct_snapshots += kept.len();
        }
        for s in kept {
            let acked = &p.acked_before[li][s.op.min(p.acked_before[li].len() - 1)];
            let inflight = p.inflight[li].get(s.op).cloned().flatten();
            let key = format!(
                "{:?}|{}|{:?}|{:?}",
                (cfg.shards, cfg.fill_factor, cfg.event_per_zone, cfg.segments_per_merge, cfg.wal_buffered, cfg.wal_flush_each_write),
                s.digest,
                acked.iter().map(|e| e.k).collect::<Vec<_>>(),
                inflight.as_ref().map(|e| e.k)
            );
            if !memo.lock().unwrap().insert(key) {
                stats.lock().unwrap().memo_hits += 1;
                continue;
            }
            let rdir = dir.join("rec");
            let _ = std::fs::remove_dir_all(&rdir);
            if let Err(e) = crate::job::copy_tree(&snapdir.join(format!("{}", s.n)), &rdir.join("db")) {
                stats.lock().unwrap().machinery.push(format!("copy snapshot: {e}"));
                continue;
            }
            let orphan_dirs = crate::fsmon::orphans(&rdir.join("db"), cfg.shards);
            let static_v = crate::fsmon::static_check(&rdir.join("db"), cfg.shards);
            for v in static_v {
                monitor_out.lock().unwrap().push((history.to_vec(), format!("crash@{}:{} {}", s.kind, rel(&s.path), v)));
            }
            let rec = vec![LifeSpec {
                ops: vec![Op::Observe { queries: suite(&TYPES, &CTXS) }],
                snap: SnapMode::Off,
                fsmon: true,
            }];
            {
                let mut st = stats.lock().unwrap();
                st.recoveries += 1;
                if cfg.wal_buffered && !cfg.wal_flush_each_write {
                    st.buffered_recoveries += 1;
                }
            }
            match run_lifetimes(&rdir, cfg, 7 + 1000 * (li as u64 + 1), &rec, false) {
                Ok(rr) => {
                    let r0 = &rr[0];
                    let mut d = Vec::new();
                    let mut known = vec![];
                    let mut violation = None;
                    if let Some(e) = &r0.error {
                        d.push(Disc { class: "error".into(), detail: format!("recovery: {e}") });
                        // listed: a crash while the schema store file is being appended leaves a
                        // torn record that the next start refuses to read
                        if e.contains("schema store") && s.path.ends_with("schemas.bin") {
                            known = vec!["KF-torn-schema-store".to_string()];
                        } else {
                            violation = Some(format!("recovery: {e}"));
                        }
                    } else {
                        let o = parse_obs(&r0.steps[0].replies, &TYPES, &CTXS);
                        d = judge(&o, acked, inflight.as_ref());
                        if !d.is_empty() {
                            let st = &states[li][s.op.min(states[li].len() - 1)];
                            let mut cands: Vec<&Model> = vec![&st.pre, &st.post];
                            if let Some(m) = &st.mid {
                                cands.push(m);
                            }
                            let phase = phase_of(last, s.seq);
                            // the orphan-directory defect needs an orphan directory in the crash tree
                            let _ = phase;
                            let in_window = !orphan_dirs.is_empty();
                            let partial = partially_committed_round(last, s.seq);
                            // buffered WAL: everything applied in this lifetime may still be in the writer's buffer
                            let mut may_be_lost: BTreeMap<i64, usize> = BTreeMap::new();
                            if cfg.wal_buffered && !cfg.wal_flush_each_write {
                                let routes = route_of(cfg);
                                let before: BTreeSet<i64> = p.acked_before[li][0].iter().map(|e| e.k).collect();
                                for e in acked.iter().filter(|e| !before.contains(&e.k)) {
                                    may_be_lost.insert(e.k, routes.get(&e.ctx).copied().unwrap_or(0));
                                }
                            }
                            match classify(&o, acked, inflight.as_ref(), &cands, true, &st.blast, in_window, partial, &may_be_lost) {
                                Ok(t) => {
                                    known = t.into_iter().collect();
                                    if cfg.wal_buffered && !cfg.wal_flush_each_write && known.is_empty() {
                                        // every deviation from the strong clause is a loss the weak clause allows
                                        d.clear();
                                        stats.lock().unwrap().buffered_suffix_losses += 1;
                                    }
                                }
                                Err(e) => violation = Some(e),
                            }
                        }
                        stats.lock().unwrap().outcomes.insert(format!("{:?}", (&o.query, &o.count)));
                        for v in &r0.monitor {
                            monitor_out.lock().unwrap().push((history.to_vec(), format!("after crash@{}:{} {}", s.kind, rel(&s.path), v)));
                        }
                        // C11 (iv): every segment the restarted process treats as published must be
                        // the complete segment the uninterrupted run published under that id
                        for (label, dig) in &r0.manifests {
                            let reference = results.iter().find_map(|r| r.manifests.get(label));
                            match reference {
                                Some(d) if d == dig => {}
                                Some(_) => monitor_out.lock().unwrap().push((history.to_vec(), format!("incomplete-after-crash: crash@{}:{} restart publishes {label} whose files differ from the complete segment", s.kind.split(' ').next().unwrap_or(""), rel(&s.path)))),
                                None => monitor_out.lock().unwrap().push((history.to_vec(), format!("unknown-after-crash: crash@{}:{} restart publishes {label}, which the uninterrupted run never published", s.kind.split(' ').next().unwrap_or(""), rel(&s.path)))),
                            }
                        }
                    }
                    if !d.is_empty() {
                        let gates_passed: Vec<String> = phase_of(last, s.seq);
                        findings.push(Finding {
                            history: history.to_vec(),
                            cfg: cfg.clone(),
                            crash: Some(CrashPoint { snap: s.n, kind: s.kind.clone(), path: rel(&s.path), gates_passed }),
                            life: li,
                            op: s.op,
                            discs: d,
                            known,
                            violation,
                        });
                    }
                }
                Err(e) => stats.lock().unwrap().machinery.push(format!("recovery of {history:?} snap {}: {e}", s.n)),
            }
        }
    }
    findings
}

pub fn explore_raw(depth: usize, alphabet: &[Tok], cfg: &SysConfig, snap: SnapMode) {
    let scratch = Scratch::new("c01");
    let hs = leaves(alphabet, depth);
    let memo = Mutex::new(HashSet::new());
    let stats = Mutex::new(Stats::default());
    let mon = Mutex::new(Vec::new());
    let t0 = std::time::Instant::now();
    let all: Vec<Vec<Finding>> = par_map(&hs, threads(), |i, h| {
        let d = scratch.dir.join(format!("h{i}"));
        let f = run_history(&d, h, cfg, snap, &memo, &stats, &mon);
        let _ = std::fs::remove_dir_all(&d);
        f
    });
    let st = stats.lock().unwrap();
    println!(
        "histories={} lifetimes={} ops={} observations={} snapshots={} distinct={} recoveries={} memo_hits={} outcomes={} wall={:.1}s machinery={}",
        st.histories, st.lifetimes, st.ops, st.observations, st.snapshots, st.distinct_snapshots, st.recoveries, st.memo_hits, st.outcomes.len(),
        t0.elapsed().as_secs_f64(), st.machinery.len()
    );
    for m in st.machinery.iter().take(5) {
        println!("MACHINERY {m}");
    }
    let mut verdicts: BTreeMap<String, (usize, String)> = BTreeMap::new();
    for f in all.iter().flatten() {
        let key = match &f.violation {
            Some(v) => format!("VIOLATION {}", v.chars().filter(|c| !c.is_ascii_digit()).take(60).collect::<String>()),
            None => format!("known {:?}", f.known),
        };
        let e = verdicts.entry(key).or_insert((0, String::new()));
        e.0 += 1;
        if e.1.is_empty() {
            e.1 = format!("{:?} life {} op {} crash {:?} :: {:?} :: {:?}", f.history, f.life, f.op, f.crash.as_ref().map(|c| (c.kind.clone(), c.path.clone(), c.gates_passed.clone())), f.violation, f.discs.first());
        }
    }
    for (k, (n, ex)) in &verdicts {
        println!("{n:6}  {k}\n        e.g. {ex}");
    }
    let mut classes: BTreeMap<String, (usize, String)> = BTreeMap::new();
    for f in all.iter().flatten().filter(|_| false) {
        for d in &f.discs {
            let key = format!(
                "{} | {}",
                d.class,
                f.crash.as_ref().map(|c| format!("crash phase {:?}", c.gates_passed)).unwrap_or("nocrash".into())
            );
            let e = classes.entry(key).or_insert((0, String::new()));
            e.0 += 1;
            if e.1.is_empty() {
                e.1 = format!("{:?} life {} op {} {} :: {}", f.history, f.life, f.op, f.crash.as_ref().map(|c| c.path.clone()).unwrap_or_default(), d.detail);
            }
        }
    }
    for (k, (n, ex)) in &classes {
        println!("{n:6}  {k}\n        e.g. {ex}");
    }
    let mon = mon.lock().unwrap();
    let mut mc: BTreeMap<String, (usize, String)> = BTreeMap::new();
    for (h, v) in mon.iter() {
        let key: String = v.split("shard-").next().unwrap_or(v).chars().filter(|c| !c.is_ascii_digit()).collect();
        let e = mc.entry(key).or_insert((0, String::new()));
        e.0 += 1;
        if e.1.is_empty() {
            e.1 = format!("{h:?}: {v}");
        }
    }
    for (k, (n, ex)) in &mc {
        println!("MON {n:6}  {k}\n        e.g. {ex}");
    }
    let _ = json!(null);
}


/// Replays the executions behind candidate violations twice (fresh memo, same scratch
/// directory name) and keeps a candidate only if the same crash point / observation fails
/// in both replays: the same schedule must fail every time before it is trusted.
/// Returns (confirmed, unreproduced).
pub fn confirm<'a>(cands: &[&'a Finding], rerun: &dyn Fn(&Finding) -> Vec<Finding>) -> (Vec<&'a Finding>, Vec<&'a Finding>) {
    let same = |g: &Finding, f: &Finding| match (&g.crash, &f.crash) {
        (Some(a), Some(b)) => a.kind == b.kind && a.path == b.path && g.op == f.op && g.life == f.life,
        (None, None) => g.life == f.life && g.op == f.op,
        _ => false,
    };
    let bad = |g: &Finding| g.violation.is_some() || g.known.is_empty();
    let mut runs: Vec<(String, Vec<Vec<Finding>>)> = Vec::new();
    let mut ok = Vec::new();
    let mut lost = Vec::new();
    for f in cands {
        let key = format!("{:?}|{}", f.history, serde_json::to_string(&f.cfg).unwrap_or_default());
        if !runs.iter().any(|(k, _)| *k == key) {
            if runs.len() >= 12 {
                // beyond a dozen distinct executions the remaining candidates are kept unconfirmed
                ok.push(*f);
                continue;
            }
            runs.push((key.clone(), vec![rerun(f), rerun(f)]));
        }
        let rr = &runs.iter().find(|(k, _)| *k == key).unwrap().1;
        if rr.iter().all(|r| r.iter().any(|g| same(g, f) && if bad(f) { bad(g) } else { g.known == f.known })) {
            ok.push(*f);
        } else {
            lost.push(*f);
        }
    }
    (ok, lost)
}

// ---------------------------------------------------------------------------
// the registered check
// ---------------------------------------------------------------------------

pub fn configs(tier: &str) -> Vec<SysConfig> {
    let base = SysConfig::default();
    // buffered WAL (weak crash clause): a small writer buffer, so that crash points fall
    // between buffer flushes
    let buffered = |size: usize, shards: usize| SysConfig { wal_buffered: true, wal_flush_each_write: false, wal_buffer_size: size, shards, ..base.clone() };
    // a buffered writer that is flushed after each write: the strong clause applies, kills included
    let buffered_flushed = SysConfig { wal_buffered: true, wal_flush_each_write: true, wal_buffer_size: 8192, ..base.clone() };
    if tier == "quick" {
        return vec![base.clone(), buffered(400, 1), buffered_flushed];
    }
    let mut v = Vec::new();
    for (ff, epz) in [(2, 2), (1, 2), (2, 1)] {
        for shards in [1usize, 2] {
            for k in [2usize, 3] {
                v.push(SysConfig { fill_factor: ff, event_per_zone: epz, shards, segments_per_merge: k, ..base.clone() });
            }
        }
    }
    v.push(buffered(400, 1));
    v.push(buffered(1000, 2));
    v.push(buffered_flushed);
    v
}


/// Explicit-state BFS over the protocol model (c01model, no compaction): every canonical model
/// state reachable within `depth` tokens is recorded with its shortest trace. The canonical
/// form abstracts event identities into counts (per shard: memtable length, WAL logs and their
/// lengths, writer position, L0 labels, and how many events would be visible 0 / 1 / >= 2 times
/// after a restart). Returns (distinct model states, transitions, traces longer than `min_len`).
pub fn model_guided_traces(cfg: &SysConfig, alphabet: &[Tok], depth: usize, min_len: usize) -> (usize, usize, Vec<Vec<Tok>>) {
    use std::collections::VecDeque;
    let cap = cfg.capacity();
    let route = route_of(cfg);
    let canon = |m: &Model, nk: i64| -> String {
        let mut s = String::new();
        for sh in &m.shards {
            let wal: Vec<(u64, usize)> = sh.wal.iter().map(|(k, v)| (*k, v.len())).collect();
            s.push_str(&format!("[{} {:?} {} {} {} {:?}]", sh.mem.len(), wal, sh.wal_cur, sh.wal_cnt, sh.alloc_l0, sh.l0));
        }
        let mut vis = [0usize; 3];
        for k in 0..nk {
            vis[m.visible_after_restart(k).min(2)] += 1;
        }
        s.push_str(&format!("{vis:?}"));
        s
    };
    let apply = |m: &mut Model, nk: &mut i64, t: Tok| {
        match t {
            Tok::Sa | Tok::Sb => {
                let e = if t == Tok::Sa { Ev { k: *nk, typ: "a".into(), ctx: "c0".into() } } else { Ev { k: *nk, typ: "b".into(), ctx: "c1".into() } };
                *nk += 1;
                m.store(&e);
            }
            Tok::Fill => {
                for _ in 0..cap {
                    let e = Ev { k: *nk, typ: "a".into(), ctx: "c0".into() };
                    *nk += 1;
                    m.store(&e);
                }
            }
            Tok::Flush => {
                m.flush_cmd();
            }
            Tok::Restart => {
                m.flush_cmd();
                m.restart();
            }
            Tok::Kill => m.restart(),
            Tok::Compact => {}
        }
    };
    let m0 = Model::new(cap, cfg.shards, route);
    let mut seen: HashSet<String> = HashSet::new();
    seen.insert(canon(&m0, 0));
    let mut fr: VecDeque<(Model, i64, Vec<Tok>)> = VecDeque::new();
    fr.push_back((m0, 0, vec![]));
    let mut transitions = 0usize;
    let mut traces = Vec::new();
    while let Some((m, nk, h)) = fr.pop_front() {
        if h.len() >= depth {
            continue;
        }
        for t in alphabet.iter().copied().filter(|t| *t != Tok::Compact) {
            transitions += 1;
            let mut m2 = m.clone();
            let mut nk2 = nk;
            apply(&mut m2, &mut nk2, t);
            if seen.insert(canon(&m2, nk2)) {
                let mut h2 = h.clone();
                h2.push(t);
                if h2.len() > min_len {
                    traces.push(h2.clone());
                }
                fr.push_back((m2, nk2, h2));
            }
        }
    }
    (seen.len(), transitions, traces)
}

/// Longer hand-picked histories (beyond the exhaustive depth) around the
/// id-drift defects: L0 emptied by compaction, restarts, manual flushes.
pub fn deep_histories() -> Vec<Vec<Tok>> {
    use Tok::*;
    vec![
        vec![Fill, Fill, Compact, Restart, Fill, Restart],
        vec![Fill, Fill, Compact, Restart, Sa, Flush, Restart, Sa],
        vec![Sa, Flush, Sa, Restart, Sa, Fill],
        vec![Fill, Restart, Fill, Sa, Restart, Sa],
        vec![Sa, Sb, Flush, Sa, Sb, Flush, Compact, Sa, Restart, Sb],
        vec![Flush, Sa, Flush, Fill, Sa],
        // kill with a partly filled WAL log, then enough STOREs for an automatic flush and more
        vec![Sa, Kill, Fill, Sa, Kill, Sa],
        vec![Sa, Sa, Kill, Fill, Fill, Kill, Fill],
        vec![Fill, Sa, Kill, Sa, Flush, Sa, Kill, Fill],
        // segments that share event types only partly (a round retires an input for one type only)
        vec![Fill, Fill, Sb, Sa, Flush, Compact, Restart, Sa],
        vec![Sb, Flush, Fill, Fill, Compact, Kill, Sb],
        // level 1 emptied into level 2, then filled again: a level-1 label is handed out twice in one process
        vec![Fill, Fill, Compact, Compact, Fill, Fill, Compact, Sa],
    ]
}

/// Payload shapes: event types whose fields are all optional (so that `{}` is a valid payload) and one
/// with a single required field; every shape is stored, the process is killed at a kill point (with no
/// flush, a flush in the middle, a flush at the end), restarted, read, stored again under other
/// contexts, killed and read again. Events are identified by their context id.
/// Returns (observations, violations).
pub fn payload_shapes(tier: &str, dir: &Path) -> Result<(usize, Vec<String>), String> {
    let shapes: Vec<(&str, &str)> = vec![
        ("z", "{}"),
        ("z", "{\"note\":null}"),
        ("z", "{\"note\":\"x\"}"),
        ("z", "{\"m\":0}"),
        ("z", "{\"note\":\"\",\"m\":-1}"),
        ("y", "{\"k\":5}"),
        ("y", "{\"k\":6,\"note\":null}"),
        ("z", "{}"),
    ];
    let cfgs: Vec<SysConfig> = configs(tier).into_iter().filter(|c| !(c.wal_buffered && !c.wal_flush_each_write)).collect();
    let cfgs: Vec<SysConfig> = if tier == "quick" { cfgs } else { cfgs.into_iter().step_by(4).collect() };
    // flush variants: none; a manual flush after the last store; usize::MAX = the memtable holds four events
    // and rotates on its own (then nothing is stored in the second lifetime: a manual flush of a partly
    // filled memtable, or any flush after a restart, runs into the listed finding KF-P1-wal-unlinked)
    let flush_ats: Vec<Option<usize>> = vec![None, Some(shapes.len()), Some(usize::MAX)];
    let mut work = Vec::new();
    for (ci, c) in cfgs.iter().enumerate() {
        for f in &flush_ats {
            // the memtable must not rotate on its own in the no-flush variant
            let c2 = if *f == Some(usize::MAX) { SysConfig { fill_factor: 2, event_per_zone: 2, ..c.clone() } } else { SysConfig { fill_factor: c.fill_factor.max(20), ..c.clone() } };
            work.push((ci, c2, *f));
        }
    }
    let results = par_map(&work, threads(), |wi, (ci, cfg, flush_at)| -> Result<(usize, Vec<String>), String> {
        let d = dir.join(format!("ps{wi}"));
        let reads = |prefixes: &[&str]| -> Vec<String> {
            let mut q = vec!["QUERY z".to_string(), "QUERY y".to_string()];
            for p in prefixes {
                for (i, (t, _)) in shapes.iter().enumerate() {
                    q.push(format!("REPLAY {t} FOR {p}{i}"));
                }
            }
            q
        };
        let stores = |p: &str| -> Vec<Op> {
            let mut v = Vec::new();
            for (i, (t, pl)) in shapes.iter().enumerate() {
                if *flush_at == Some(i) {
                    v.push(Op::FlushSeq);
                }
                v.push(Op::Cmd { text: format!("STORE {t} FOR {p}{i} PAYLOAD {pl}") });
            }
            if *flush_at == Some(shapes.len()) {
                v.push(Op::FlushSeq);
            }
            v
        };
        let mut l1 = vec![Op::Cmd { text: "DEFINE z FIELDS { note: \"string | null\", m: \"int | null\" }".into() }, Op::Cmd { text: "DEFINE y FIELDS { k: \"int\", note: \"string | null\" }".into() }];
        l1.extend(stores("p"));
        l1.push(Op::KillPoint);
        let mut l2 = vec![Op::Observe { queries: reads(&["p"]) }];
        if *flush_at != Some(usize::MAX) {
            l2.extend(stores("q"));
        }
        l2.push(Op::KillPoint);
        let l3 = vec![Op::Observe { queries: reads(&["p", "q"]) }];
        let lives: Vec<LifeSpec> = [l1, l2, l3].into_iter().map(|ops| LifeSpec { ops, snap: SnapMode::Off, fsmon: false }).collect();
        let res = run_lifetimes(&d, cfg, 31, &lives, false)?;
        let mut viol = Vec::new();
        let mut obs = 0usize;
        // acknowledged contexts per type, in life order
        let mut acked: Vec<(String, String, String)> = Vec::new(); // (type, ctx, payload)
        for (li, r) in res.iter().enumerate() {
            if let Some(e) = &r.error {
                return Err(format!("payload shapes cfg#{ci} flush {flush_at:?} life {li}: {e}"));
            }
            for (oi, op) in lives[li].ops.iter().enumerate() {
                let st = &r.steps[oi];
                match op {
                    Op::Cmd { text } if text.starts_with("STORE ") => {
                        if st.replies.first().map(|x| x.status) == Some(200) {
                            let mut it = text.split(' ');
                            let t = it.nth(1).unwrap_or("").to_string();
                            let c = it.nth(1).unwrap_or("").to_string();
                            acked.push((t, c, text.splitn(6, ' ').nth(5).unwrap_or("").to_string()));
                        }
                    }
                    Op::Observe { queries } => {
                        obs += 1;
                        let tag = format!("cfg#{ci} (wal buffered={} flush_each_write={}) flush before store #{flush_at:?}, life {li}", cfg.wal_buffered, cfg.wal_flush_each_write);
                        for (qi, q) in queries.iter().enumerate() {
                            let rep = &st.replies[qi];
                            if let Some(t) = q.strip_prefix("QUERY ") {
                                let mut got: Vec<String> = rep.rows.iter().map(|r| r.get("context_id").and_then(|v| v.as_str()).unwrap_or("<none>").to_string()).collect();
                                got.sort();
                                let mut want: Vec<String> = acked.iter().filter(|a| a.0 == t).map(|a| a.1.clone()).collect();
                                want.sort();
                                if got != want {
                                    let missing: Vec<&String> = want.iter().filter(|c| !got.contains(c)).collect();
                                    let payloads: Vec<&String> = acked.iter().filter(|a| missing.contains(&&a.1)).map(|a| &a.2).collect();
                                    viol.push(format!("{tag}: {q} returns contexts {got:?}, applied {want:?} (missing payloads {payloads:?})"));
                                }
                            } else if let Some(rest) = q.strip_prefix("REPLAY ") {
                                let mut it = rest.split(' ');
                                let t = it.next().unwrap_or("");
                                let c = it.nth(1).unwrap_or("");
                                let want = acked.iter().filter(|a| a.0 == t && a.1 == c).count();
                                if rep.rows.len() != want {
                                    let pl = acked.iter().find(|a| a.1 == c).map(|a| a.2.clone()).unwrap_or_default();
                                    viol.push(format!("{tag}: {q} returns {} rows, applied {want} (payload {pl})", rep.rows.len()));
                                }
                            }
                        }
                    }
                    _ => {}
                }
            }
        }
        let _ = std::fs::remove_dir_all(&d);
        Ok((obs, viol))
    });
    let mut obs = 0;
    let mut viol = Vec::new();
    for r in results {
        let (o, v) = r?;
        obs += o;
        viol.extend(v);
    }
    Ok((obs, viol))
}

/// A kill while a rotation is held: the memtable fills (rotation, new WAL log), the flush task is held
/// at its first gate, 0..2 more events are stored into the new log, and the process is killed there.
/// The next lifetime recovers more events than a memtable holds (two logs), reads, flushes and reads
/// again: every acknowledged event exactly once in both reads. Returns (observations, violations).
pub fn held_rotation_kill(tier: &str, dir: &Path) -> Result<(usize, Vec<String>), String> {
    let cfgs: Vec<SysConfig> = configs(tier).into_iter().filter(|c| !(c.wal_buffered && !c.wal_flush_each_write) && c.shards == 1).collect();
    let cfgs: Vec<SysConfig> = if tier == "quick" { cfgs } else { cfgs.into_iter().step_by(2).collect() };
    let mut work = Vec::new();
    for (ci, c) in cfgs.iter().enumerate() {
        for extra in 0..3usize {
            work.push((ci, c.clone(), extra));
        }
    }
    let results = par_map(&work, threads(), |wi, (ci, cfg, extra)| -> Result<(usize, Vec<String>), String> {
        let d = dir.join(format!("hk{wi}"));
        let cap = cfg.capacity();
        let n = cap + extra;
        let mut l1 = vec![Op::Cmd { text: "DEFINE h FIELDS { k: \"int\" }".into() }, Op::Park { gate: "flush.queued".into(), shard: 0, seg: None, nth: 0 }];
        for i in 0..n {
            let text = format!("STORE h FOR c{} PAYLOAD {{\"k\":{i}}}", i % 2);
            // every STORE runs to quiescence (the held flush task sits at its gate meanwhile), so that each
            // acknowledged event is applied in the sense of this check before the kill
            l1.push(Op::Cmd { text });
        }
        l1.push(Op::KillPoint);
        let reads = vec!["QUERY h".to_string(), "REPLAY h FOR c0".to_string(), "REPLAY h FOR c1".to_string()];
        let l2 = vec![Op::Observe { queries: reads.clone() }, Op::FlushSeq, Op::Observe { queries: reads.clone() }];
        let lives: Vec<LifeSpec> = [l1, l2].into_iter().map(|ops| LifeSpec { ops, snap: SnapMode::Off, fsmon: false }).collect();
        let res = run_lifetimes(&d, cfg, 41, &lives, false)?;
        for (li, r) in res.iter().enumerate() {
            if let Some(e) = &r.error {
                return Err(format!("held rotation cfg#{ci} extra {extra} life {li}: {e}"));
            }
        }
        let mut acked: Vec<i64> = Vec::new();
        for (oi, op) in lives[0].ops.iter().enumerate() {
            if let Op::Cmd { text } | Op::CmdNb { text } = op {
                if text.starts_with("STORE ") && res[0].steps[oi].replies.first().map(|x| x.status) == Some(200) {
                    acked.push(text.split("\"k\":").nth(1).and_then(|t| t.trim_end_matches('}').parse().ok()).unwrap_or(-1));
                }
            }
        }
        let mut viol = Vec::new();
        let mut obs = 0;
        for (oi, stage) in [(0usize, "after the restart"), (2, "after the restart and a flush")] {
            obs += 1;
            let st = &res[1].steps[oi];
            let tag = format!("cfg#{ci} (memtable of {cap}, wal buffered={}) {} events, rotation held at flush.queued, kill; {stage}", cfg.wal_buffered, acked.len());
            let mut got: Vec<i64> = st.replies[0].rows.iter().filter_map(|r| r.get("k").and_then(|v| v.as_i64())).collect();
            got.sort();
            let mut want = acked.clone();
            want.sort();
            if got != want {
                viol.push(format!("{tag}: QUERY h returns k={got:?}, applied {want:?}"));
            }
            for (qi, c) in [(1usize, 0i64), (2, 1)] {
                let mut g: Vec<i64> = st.replies[qi].rows.iter().filter_map(|r| r.get("k").and_then(|v| v.as_i64())).collect();
                g.sort();
                let w: Vec<i64> = want.iter().copied().filter(|k| k % 2 == c).collect();
                if g != w {
                    viol.push(format!("{tag}: REPLAY h FOR c{c} returns k={g:?}, applied {w:?}"));
                }
            }
        }
        let _ = std::fs::remove_dir_all(&d);
        Ok((obs, viol))
    });
    let mut obs = 0;
    let mut viol = Vec::new();
    for r in results {
        let (o, v) = r?;
        obs += o;
        viol.extend(v);
    }
    Ok((obs, viol))
}

pub fn check(tier: &str) -> i32 {
    let t0 = std::time::Instant::now();
    use Tok::*;
    let alphabet = [Sa, Sb, Fill, Flush, Compact, Restart, Kill];
    let (depth, snap) = if tier == "quick" { (3usize, SnapMode::Coarse) } else { (4usize, SnapMode::Fine) };
    let alphabet: Vec<Tok> = if tier == "quick" { vec![Sa, Fill, Flush, Compact, Restart, Kill] } else { alphabet.to_vec() };
    let cap_s: f64 = std::env::var("VERIF_WALL_CAP_S").ok().and_then(|s| s.parse().ok()).unwrap_or(if tier == "quick" { 240.0 } else { 2700.0 });
    let scratch = Scratch::new("c01");
    let memo = Mutex::new(HashSet::new());
    let stats = Mutex::new(Stats::default());
    let mon = Mutex::new(Vec::new());
    let mut all: Vec<Finding> = Vec::new();
    let mut capped = false;
    let mut work: Vec<(SysConfig, Vec<Tok>)> = Vec::new();
    for (ci, cfg) in configs(tier).iter().enumerate() {
        let mut hs = leaves(&alphabet, depth);
        hs.extend(deep_histories());
        if tier != "quick" && ci > 0 {
            // further configurations: exhaustive depth 3 + the deep set
            hs = leaves(&alphabet, 3);
            hs.extend(deep_histories());
        }
        for h in hs {
            // with a buffered WAL a kill loses an unpredictable suffix; histories continue only after clean restarts
            if cfg.wal_buffered && !cfg.wal_flush_each_write && h.iter().any(|t| *t == Kill) {
                continue;
            }
            work.push((cfg.clone(), h));
        }
    }
    // model-guided deep histories: the shortest trace to every canonical state of the protocol
    // model beyond the exhaustive depth is replayed on the implementation (conformance: what
    // the implementation shows must be what the specification or the model's listed defects say)
    let (mdepth, mcap) = if tier == "quick" { (5usize, 60usize) } else { (8usize, 1500usize) };
    let base_cfg = configs(tier)[0].clone();
    let (model_states, model_transitions, mut mtraces) = model_guided_traces(&base_cfg, &[Sa, Fill, Flush, Restart, Kill], mdepth, depth);
    let model_traces_total = mtraces.len();
    // longest first: they reach the states the exhaustive part cannot
    mtraces.sort_by_key(|h| std::cmp::Reverse(h.len()));
    mtraces.truncate(mcap);
    for h in &mtraces {
        work.push((base_cfg.clone(), h.clone()));
    }
    // determinism canary: the first 8 executions are run twice and must agree
    let canary: Vec<(SysConfig, Vec<Tok>)> = work.iter().filter(|(_, h)| h.iter().any(|t| *t == Fill)).take(8).cloned().collect();
    let run = |tag: &str, i: usize, cfg: &SysConfig, h: &[Tok], memo: &Mutex<HashSet<String>>, stats: &Mutex<Stats>| {
        let d = scratch.dir.join(format!("{tag}{i}"));
        let f = run_history(&d, h, cfg, snap, memo, stats, &mon);
        let _ = std::fs::remove_dir_all(&d);
        f
    };
    let c1 = par_map(&canary, threads(), |i, (c, h)| run("ca", i, c, h, &Mutex::new(HashSet::new()), &Mutex::new(Stats::default())));
    let c2 = par_map(&canary, threads(), |i, (c, h)| run("ca", i, c, h, &Mutex::new(HashSet::new()), &Mutex::new(Stats::default())));
    if serde_json::to_string(&c1).unwrap() != serde_json::to_string(&c2).unwrap() {
        let _ = std::fs::write("/verif/work/canary1.json", serde_json::to_string_pretty(&c1).unwrap());
        let _ = std::fs::write("/verif/work/canary2.json", serde_json::to_string_pretty(&c2).unwrap());
        eprintln!("MACHINERY: nondeterminism detected: two runs of the same executions disagree (see /verif/work/canary{{1,2}}.json)");
        return 2;
    }
    let done = std::sync::atomic::AtomicUsize::new(0);
    let res: Vec<Option<Vec<Finding>>> = par_map(&work, threads(), |i, (c, h)| {
        if t0.elapsed().as_secs_f64() > cap_s {
            return None;
        }
        done.fetch_add(1, std::sync::atomic::Ordering::SeqCst);
        Some(run("h", i, c, h, &memo, &stats))
    });
    for r in res {
        match r {
            Some(f) => all.extend(f),
            None => capped = true,
        }
    }
    let st = stats.lock().unwrap();
    if !st.machinery.is_empty() {
        for m in st.machinery.iter().take(10) {
            eprintln!("MACHINERY: {m}");
        }
        return 2;
    }
    let kf = crate::known::load();
    let mut known_counts: BTreeMap<String, (usize, String)> = BTreeMap::new();
    let mut violations: Vec<&Finding> = Vec::new();
    for f in &all {
        if f.violation.is_some() || f.known.is_empty() {
            violations.push(f);
            continue;
        }
        if f.known.iter().all(|t| kf.is_known("C01", t)) {
            for t in &f.known {
                let e = known_counts.entry(t.clone()).or_insert((0, String::new()));
                e.0 += 1;
                if e.1.is_empty() {
                    e.1 = format!("{:?} crash {:?}", f.history, f.crash.as_ref().map(|c| format!("{} {}", c.kind.split(' ').next().unwrap_or(""), c.path)));
                }
            }
        } else {
            violations.push(f);
        }
    }
    for (t, (n, ex)) in &known_counts {
        println!("KNOWN-FINDING: property=C01 {t}: {} [{n} executions, e.g. {ex}]", kf.describe("C01", t));
    }
    // shortest history first
    violations.sort_by_key(|f| (f.history.len(), f.crash.is_some(), f.op));
    // trust a failure only if it fails again, twice, in a replay of the same execution
    let (violations, unreproduced) = confirm(&violations, &|f: &Finding| {
        let i = work.iter().position(|(c, h)| *h == f.history && serde_json::to_string(c).ok() == serde_json::to_string(&f.cfg).ok()).unwrap_or(0);
        run("h", i, &f.cfg, &f.history, &Mutex::new(HashSet::new()), &Mutex::new(Stats::default()))
    });
    for f in unreproduced.iter().take(5) {
        eprintln!("UNREPRODUCED (not reported): {:?} life {} op {} crash {:?}: {:?}", f.history, f.life, f.op, f.crash.as_ref().map(|c| (&c.kind, &c.path)), f.violation);
    }
    let mut reported = BTreeSet::new();
    for f in violations.iter() {
        let key = f.violation.clone().unwrap_or_default().chars().filter(|c| !c.is_ascii_digit()).collect::<String>();
        if !reported.insert(key) || reported.len() > 5 {
            continue;
        }
        let path = write_replay("C01", &json!({"property": "C01", "finding": f, "how": "verif replay <file>"}));
        println!("VIOLATION property=C01 replay={path}");
        eprintln!("  {:?} life {} op {} crash {:?}: {:?} / {:?}", f.history, f.life, f.op, f.crash, f.violation, f.discs.first());
    }
    // payload shapes (empty payloads, nulls only, one required field) across kill points
    let (shape_obs, shape_viol) = match payload_shapes(tier, &scratch.dir) {
        Ok(x) => x,
        Err(e) => {
            eprintln!("MACHINERY: {e}");
            return 2;
        }
    };
    // a kill while a rotation is held, then recovery of two logs into one memtable, read, flush, read
    let (held_obs, held_viol) = match held_rotation_kill(tier, &scratch.dir) {
        Ok(x) => x,
        Err(e) => {
            eprintln!("MACHINERY: {e}");
            return 2;
        }
    };
    let shape_obs = shape_obs + held_obs;
    let shape_viol: Vec<String> = shape_viol.into_iter().chain(held_viol.into_iter()).collect();
    {
        let mut by_tag: BTreeMap<String, usize> = BTreeMap::new();
        for m in &shape_viol {
            *by_tag.entry(m.split(": ").next().unwrap_or("").to_string()).or_insert(0) += 1;
        }
        for (t, n) in &by_tag {
            eprintln!("  payload shapes: {n} failed reads in {t}");
        }
        let mut shown = BTreeSet::new();
        for m in &shape_viol {
            let key: String = m.chars().filter(|c| !c.is_ascii_digit()).take(120).collect();
            if !shown.insert(key) || shown.len() > 4 {
                continue;
            }
            let path = write_replay("C01", &json!({"property": "C01", "part": "payload shapes", "what": m}));
            println!("VIOLATION property=C01 replay={path}");
            eprintln!("  {m}");
        }
    }
    let exhaustive = !capped;
    let samples: Vec<serde_json::Value> = work.iter().step_by((work.len() / 6).max(1)).take(6).map(|(c, h)| json!({"config": [c.shards, c.fill_factor, c.event_per_zone, c.segments_per_merge], "history": h})).collect();
    write_evidence(&Evidence {
        property_id: "C01".into(),
        tier: tier.into(),
        seed: seed(),
        level: "fault_enumeration".into(),
        coverage: json!({
            "evaluations": st.recoveries + st.observations,
            "distinct_nontrivial": st.recoveries,
            "rule": format!("all histories of length {depth} over {alphabet:?} (+{} longer hand-picked ones) per configuration, every prefix observed; in the last lifetime every FS-mutating call boundary ({}) is a crash point; a recovery run is non-trivial/distinct when its (config, tree digest, acknowledged set, in-flight event) was not seen before", deep_histories().len(), if snap == SnapMode::Fine { "including each write" } else { "except individual writes" }),
            "samples": samples,
            "histories": st.histories,
            "lifetimes": st.lifetimes,
            "ops": st.ops,
            "observations_in_history": st.observations,
            "crash_snapshots": st.snapshots,
            "distinct_crash_trees": st.distinct_snapshots,
            "recovery_runs": st.recoveries,
            "recoveries_skipped_as_identical": st.memo_hits,
            "fs_events_observed": st.fs_events,
            "distinct_outcomes": st.outcomes.len(),
            "configurations": configs(tier).len(),
            "known_finding_executions": known_counts.iter().map(|(k, v)| (k.clone(), v.0)).collect::<BTreeMap<_, _>>(),
            "exhaustive": exhaustive,
            "capped": capped,
            "cap_s": cap_s,
            "executed_work_items": done.load(std::sync::atomic::Ordering::SeqCst),
            "work_items": work.len(),
            "determinism_canary_executions": canary.len() * 2,
            "unreproduced_observations": unreproduced.len(),
            "model_guided": {"model_depth": mdepth, "distinct_model_states": model_states, "model_transitions": model_transitions, "traces_beyond_the_exhaustive_depth": model_traces_total, "traces_replayed_on_the_implementation": mtraces.len(), "cap": mcap},
            "payload_shapes": {"observations": shape_obs, "rule": "(a) 8 payload shapes over two event types (all fields optional: {}, nulls only, one or two values; one required field) x strong-clause configurations x flush {none, manual after the last store, automatic rotation of a four-event memtable}: store, kill point, restart, read by context (QUERY per type, REPLAY per context), store again, kill point, restart, read; (b) a kill while a rotation is held: memtable full, flush task held at flush.queued, 0..2 more events into the new log, kill point; next lifetime recovers two logs into one memtable, reads, flushes, reads"},
            "buffered_wal_recovery_runs": st.buffered_recoveries,
            "buffered_wal_crash_points_with_an_allowed_suffix_loss": st.buffered_suffix_losses,
        }),
        assumptions: vec![
            "process crash model: every completed system call is kept, user-space memory is lost (no power-loss reordering)".into(),
            "'applied' = STORE answered 200 and the quiescence barrier after it returned".into(),
            "buffered-WAL configurations (flush_each_write = false, 400 / 1000 byte writer buffer): clean restarts are judged by the strong clause; at crash points the events applied in the crashed lifetime may be lost, but only as a per-shard suffix, never duplicated or corrupted (histories with kills are not run in these configurations)".into(),
            "single-threaded tokio runtime with paused clock; entropy and wall clock pinned by libc interposition".into(),
            "COUNT is taken with a predicate on a type-private field so that the C09 defect (in-memory aggregates ignore the event type) is not reported here".into(),
            "known findings are matched by the WAL-id/segment-id protocol model in c01model.rs; anything the model does not predict is a violation".into(),
            "model-guided part: BFS over the protocol model (event identities abstracted into counts) gives the shortest trace to every canonical model state; traces longer than the exhaustive depth are replayed on the implementation (longest first, up to the stated cap) with every crash point of their last lifetime".into(),
        ],
        wall_s: t0.elapsed().as_secs_f64(),
        violations: (violations.len() + shape_viol.len()) as i64,
    });
    if violations.is_empty() && shape_viol.is_empty() { 0 } else { 1 }
}


/// `verif c01replay <replay file> [fine|coarse]`: re-executes the history of a finding and
/// prints what the recovery from its crash point (or the in-history observation) shows.
pub fn replay(path: &str, mode: Option<&str>) -> i32 {
    let v: serde_json::Value = serde_json::from_str(&std::fs::read_to_string(path).expect("replay file")).expect("json");
    let fv = if v.get("finding").is_some() { v["finding"].clone() } else { v["crash_finding"].clone() };
    let f: Finding = serde_json::from_value(fv).expect("finding");
    let snap = match mode {
        Some("fine") => SnapMode::Fine,
        Some("off") => SnapMode::Off,
        _ => {
            if f.crash.as_ref().map_or(false, |c| c.kind.starts_with("Write")) { SnapMode::Fine } else { SnapMode::Coarse }
        }
    };
    let scratch = Scratch::new(&format!("c01replay-{}", std::process::id()));
    let memo = Mutex::new(HashSet::new());
    let stats = Mutex::new(Stats::default());
    let mon = Mutex::new(Vec::new());
    let found = run_history(&scratch.dir.join("h"), &f.history, &f.cfg, snap, &memo, &stats, &mon);
    println!("history {:?}: {} findings in this execution", f.history, found.len());
    let mut hit = false;
    for g in &found {
        let same = match (&g.crash, &f.crash) {
            (Some(a), Some(b)) => a.kind == b.kind && a.path == b.path && g.op == f.op,
            (None, None) => g.life == f.life && g.op == f.op,
            _ => false,
        };
        if same {
            hit = true;
            println!("life {} op {} crash {:?}", g.life, g.op, g.crash);
            println!("  known {:?} violation {:?}", g.known, g.violation);
            for d in g.discs.iter().take(12) {
                println!("  {}: {}", d.class, d.detail);
            }
        }
    }
    if !hit {
        println!("the recorded crash point / observation shows no discrepancy in this execution");
    }
    for g in found.iter().filter(|g| g.violation.is_some() || g.known.is_empty()).take(6) {
        println!("UNEXPLAINED life {} op {} crash {:?}: {:?} / {:?}", g.life, g.op, g.crash.as_ref().map(|c| (c.kind.clone(), c.path.clone())), g.violation, g.discs.first());
    }
    if hit { 1 } else { 0 }
}
