//! C09 — aggregates equal a fold over the events the selection would return.
//! The verdict is the property verbatim: each aggregate reply is compared with a
//! fold over the rows the system itself returns for the same query without the
//! aggregate clause, in the same storage state.
use crate::decode::Reply;
use crate::prod::Layout;
use crate::prodcheck::{self, Judged, Spec};
use crate::refq::*;
use crate::sys::SysConfig;
use serde_json::{json, Map, Value};
use std::collections::BTreeMap;

pub fn schemas() -> Vec<Schema> {
    let fields = vec![
        ("id".into(), FType::Int),
        ("k".into(), FType::Int),
        ("p".into(), FType::Float),
        ("s".into(), FType::Str),
        ("b".into(), FType::Bool),
        ("e".into(), FType::Enum(vec!["x".into(), "y".into(), "z".into()])),
        ("o".into(), FType::OptInt),
        ("d".into(), FType::Datetime),
    ];
    vec![Schema { name: "g".into(), fields: fields.clone() }, Schema { name: "h".into(), fields }]
}

fn row(id: i64, ctx: &str, k: i64, p: f64, s: &str, b: bool, e: &str, o: Option<i64>, d: i64) -> Row {
    let mut m = Map::new();
    m.insert("id".into(), json!(id));
    m.insert("k".into(), json!(k));
    m.insert("p".into(), json!(p));
    m.insert("s".into(), json!(s));
    m.insert("b".into(), json!(b));
    m.insert("e".into(), json!(e));
    if let Some(o) = o {
        m.insert("o".into(), json!(o));
    }
    m.insert("d".into(), json!(d));
    Row { k: id, ctx: ctx.into(), payload: m, ts: 0 }
}

pub fn datasets(tier: &str) -> Vec<(String, Vec<(usize, Row)>)> {
    // 2023-11-14T22:13:20Z = 1700000000 (Tuesday); rows spread over hours, days, a week and a month boundary
    let base = vec![
        (0usize, row(1, "c0", 1, 1.5, "a", true, "x", Some(1), 1700000000)),
        (0, row(2, "c1", 2, 2.5, "a", false, "y", None, 1700003600)),
        (1, row(100, "c0", 50, 9.0, "zz", true, "z", Some(9), 1700000100)),
        (0, row(3, "c0", 3, 0.5, "b", true, "x", Some(1), 1700090000)),
        (0, row(4, "c1", 3, 4.0, "b", true, "z", Some(2), 1702000000)),
        (0, row(5, "c0", -2, 0.25, "", false, "y", None, 1700003599)),
        (1, row(101, "c1", 60, 1.0, "zz", false, "x", None, 1700000200)),
        (0, row(6, "c1", 1, 1.5, "a", false, "x", Some(1), 1700438400)),
    ];
    let mut out = vec![("base8".to_string(), base.clone())];
    out.push(("first4".to_string(), base[..4].to_vec()));
    // one long group with nulls at various positions of the optional field (vectorised
    // aggregation works on runs of one group), and a data set of negative values only
    let os = [Some(1), None, Some(3), Some(4), Some(5), Some(6), None, Some(8), Some(9), None, Some(11)];
    out.push(("nullrun11".to_string(), os.iter().enumerate().map(|(i, o)| (0usize, row(i as i64 + 1, "c0", i as i64 + 1, i as f64 + 0.5, "a", true, "x", *o, 1700000000 + i as i64))).collect()));
    // three groups met in opposite orders by the two halves of the data (partials of a mixed layout)
    let ge = ["x", "y", "z"];
    let gs = ["p", "q", "r"];
    out.push(("groups12".to_string(), (0..12usize).map(|i| { let g = if i < 6 { i % 3 } else { 2 - i % 3 }; (0usize, row(i as i64 + 1, if i % 2 == 0 { "c0" } else { "c1" }, i as i64, i as f64 + 0.5, gs[g], i % 2 == 0, ge[g], Some((i % 4) as i64), 1700000000 + 60 * i as i64)) }).collect()));
    let neg = [-5i64, -3, -9, -1, -7];
    out.push(("allneg5".to_string(), neg.iter().enumerate().map(|(i, k)| (0usize, row(i as i64 + 1, if i % 2 == 0 { "c0" } else { "c1" }, *k, *k as f64 - 0.5, if i < 3 { "a" } else { "b" }, i % 2 == 0, "y", Some(*k * 2), 1700000000 + 3600 * i as i64))).collect()));
    // the optional integer field holds 0 in some events and nothing in others (a group key 0 next to the
    // absent key, met in either order by a batch)
    let zn = [Some(0), None, Some(0), None, Some(1), Some(0), None, Some(1), None];
    out.push(("zeronull9".to_string(), zn.iter().enumerate().map(|(i, o)| (0usize, row(i as i64 + 1, "c0", 10 * (i as i64 + 1), i as f64 + 0.5, "a", i % 2 == 0, "x", *o, 1700000000 + i as i64))).collect()));
    let nz = [None, Some(0), None, Some(0), Some(2), None];
    out.push(("nullzero6".to_string(), nz.iter().enumerate().map(|(i, o)| (0usize, row(i as i64 + 1, if i % 2 == 0 { "c0" } else { "c1" }, 7 * (i as i64 + 1), i as f64 + 0.5, "b", true, "y", *o, 1700000000 + 60 * i as i64))).collect()));
    if tier != "quick" {
        out.push(("last5".to_string(), base[3..].to_vec()));
        out.push(("only-g-3".to_string(), base.iter().filter(|r| r.0 == 0).take(3).cloned().collect()));
        out.push(("single".to_string(), base[..1].to_vec()));
    }
    out
}

#[derive(Debug, Clone)]
enum Metric {
    Count,
    CountField(&'static str),
    CountUnique(&'static str),
    Total(&'static str),
    Avg(&'static str),
    Min(&'static str),
    Max(&'static str),
}

impl Metric {
    fn text(&self) -> String {
        match self {
            Metric::Count => "COUNT".into(),
            Metric::CountField(f) => format!("COUNT {f}"),
            Metric::CountUnique(f) => format!("COUNT UNIQUE {f}"),
            Metric::Total(f) => format!("TOTAL {f}"),
            Metric::Avg(f) => format!("AVG {f}"),
            Metric::Min(f) => format!("MIN {f}"),
            Metric::Max(f) => format!("MAX {f}"),
        }
    }
    fn col(&self) -> String {
        match self {
            Metric::Count => "count".into(),
            Metric::CountField(f) => format!("count_{f}"),
            Metric::CountUnique(f) => format!("count_unique_{f}"),
            Metric::Total(f) => format!("total_{f}"),
            Metric::Avg(f) => format!("avg_{f}"),
            Metric::Min(f) => format!("min_{f}"),
            Metric::Max(f) => format!("max_{f}"),
        }
    }
    fn class(&self) -> &'static str {
        match self {
            Metric::Count => "COUNT",
            Metric::CountField(_) => "COUNT field",
            Metric::CountUnique(_) => "COUNT UNIQUE",
            Metric::Total(_) => "TOTAL",
            Metric::Avg(_) => "AVG",
            Metric::Min(_) => "MIN",
            Metric::Max(_) => "MAX",
        }
    }
}

#[derive(Debug, Clone)]
struct AggQ {
    text: String,
    /// index of the selection query (same filter, no aggregate) in the query list
    sel: usize,
    metrics: Vec<Metric>,
    by: Vec<&'static str>,
    per: Option<(&'static str, Option<&'static str>)>,
    limit: Option<usize>,
    /// ORDER BY <field of the BY list> [DESC]
    order: Option<(&'static str, bool)>,
    filter_class: &'static str,
}

fn cell_str(v: Option<&Value>) -> String {
    match v {
        None | Some(Value::Null) => "<null>".into(),
        Some(Value::String(s)) => s.clone(),
        Some(o) => o.to_string(),
    }
}

fn bucket_of(gran: &str, t: i64) -> i64 {
    bucket_of_tz(gran, t, 0)
}

/// bucket start for a zone with a fixed UTC offset (seconds, no DST)
fn bucket_of_tz(gran: &str, t: i64, off: i64) -> i64 {
    bucket_utc(gran, t + off) - off
}

fn bucket_utc(gran: &str, t: i64) -> i64 {
    // UTC, week starts on Monday
    let day = t.div_euclid(86400);
    match gran {
        "HOUR" => t.div_euclid(3600) * 3600,
        "DAY" => day * 86400,
        "WEEK" => {
            // 1970-01-01 was a Thursday (weekday index 3 with Monday = 0)
            let wd = (day + 3).rem_euclid(7);
            (day - wd) * 86400
        }
        "MONTH" | "YEAR" => {
            // civil from days
            let z = day + 719468;
            let era = z.div_euclid(146097);
            let doe = z.rem_euclid(146097);
            let yoe = (doe - doe / 1460 + doe / 36524 - doe / 146096) / 365;
            let y = yoe + era * 400;
            let doy = doe - (365 * yoe + yoe / 4 - yoe / 100);
            let mp = (5 * doy + 2) / 153;
            let m = if mp < 10 { mp + 3 } else { mp - 9 };
            let y = if m <= 2 { y + 1 } else { y };
            let (yy, mm) = if gran == "YEAR" { (y, 1) } else { (y, m) };
            // days from civil
            let y2 = if mm <= 2 { yy - 1 } else { yy };
            let era2 = y2.div_euclid(400);
            let yoe2 = y2 - era2 * 400;
            let mp2 = (mm + 9) % 12;
            let doy2 = (153 * mp2 + 2) / 5;
            let doe2 = yoe2 * 365 + yoe2 / 4 - yoe2 / 100 + doy2;
            (era2 * 146097 + doe2 - 719468) * 86400
        }
        _ => t,
    }
}

fn num(v: Option<&Value>) -> Option<f64> {
    v.and_then(|x| x.as_f64())
}

fn fold(metric: &Metric, rows: &[&Map<String, Value>]) -> Value {
    match metric {
        Metric::Count => json!(rows.len()),
        Metric::CountField(f) => json!(rows.iter().filter(|r| r.get(*f).map_or(false, |v| !v.is_null())).count()),
        Metric::CountUnique(f) => {
            let s: std::collections::BTreeSet<String> = rows.iter().filter(|r| r.get(*f).map_or(false, |v| !v.is_null())).map(|r| cell_str(r.get(*f))).collect();
            json!(s.len())
        }
        Metric::Total(f) => {
            let vals: Vec<f64> = rows.iter().filter_map(|r| num(r.get(*f))).collect();
            json!(vals.iter().sum::<f64>())
        }
        Metric::Avg(f) => {
            let vals: Vec<f64> = rows.iter().filter_map(|r| num(r.get(*f))).collect();
            if vals.is_empty() { Value::Null } else { json!(vals.iter().sum::<f64>() / vals.len() as f64) }
        }
        Metric::Min(f) | Metric::Max(f) => {
            let is_min = matches!(metric, Metric::Min(_));
            let vals: Vec<&Value> = rows.iter().filter_map(|r| r.get(*f)).filter(|v| !v.is_null()).collect();
            if vals.is_empty() {
                return Value::Null;
            }
            if vals.iter().all(|v| v.is_number()) {
                let mut best = vals[0];
                for v in &vals {
                    let (a, b) = (v.as_f64().unwrap(), best.as_f64().unwrap());
                    if (is_min && a < b) || (!is_min && a > b) {
                        best = v;
                    }
                }
                best.clone()
            } else {
                let mut ss: Vec<String> = vals.iter().map(|v| cell_str(Some(v))).collect();
                ss.sort();
                json!(if is_min { ss.first().unwrap().clone() } else { ss.last().unwrap().clone() })
            }
        }
    }
}

fn metric_eq(want: &Value, got: Option<&Value>) -> bool {
    match (want, got) {
        (Value::Null, None) | (Value::Null, Some(Value::Null)) => true,
        (w, Some(g)) => {
            if let (Some(a), Some(b)) = (w.as_f64(), g.as_f64()) {
                (a - b).abs() <= 1e-9 * a.abs().max(1.0)
            } else if let (Some(a), Some(b)) = (w.as_f64(), g.as_str().and_then(|s| s.parse::<f64>().ok())) {
                // numbers rendered as strings are a C20/C07 matter; numerically equal is accepted here
                (a - b).abs() <= 1e-9 * a.abs().max(1.0)
            } else {
                cell_str(Some(w)) == cell_str(Some(g))
            }
        }
        _ => false,
    }
}

fn build_queries(tier: &str) -> (Vec<String>, Vec<AggQ>) {
    let mut texts: Vec<String> = Vec::new();
    let filters: Vec<(&'static str, &'static str, &'static str)> = vec![
        ("", "", "no filter"),
        ("", " WHERE k >= 2", "WHERE"),
        (" FOR c0", "", "FOR"),
        (" SINCE \"1700003600\" USING d", "", "SINCE"),
        (" FOR c1", " WHERE s = \"a\"", "FOR+WHERE"),
    ];
    // selection queries first
    for (pre, post, _) in &filters {
        texts.push(format!("QUERY g{pre}{post}"));
    }
    let metrics = vec![
        Metric::Count,
        Metric::CountField("o"),
        Metric::CountUnique("s"),
        Metric::CountUnique("context_id"),
        Metric::Total("k"),
        Metric::Total("p"),
        Metric::Avg("k"),
        Metric::Avg("p"),
        Metric::Avg("o"),
        Metric::Total("o"),
        Metric::Min("o"),
        Metric::Max("o"),
        Metric::Min("k"),
        Metric::Max("k"),
        Metric::Min("s"),
        Metric::Max("s"),
        Metric::Min("p"),
        Metric::Max("p"),
    ];
    let bys: Vec<Vec<&'static str>> = vec![vec![], vec!["b"], vec!["e"], vec!["o"], vec!["s"], vec!["b", "e"], vec!["e", "o"]];
    let mut aggs = Vec::new();
    let mut add = |texts: &mut Vec<String>, fi: usize, ms: Vec<Metric>, by: Vec<&'static str>, per: Option<(&'static str, Option<&'static str>)>, limit: Option<usize>| {
        let (pre, post, fclass) = filters[fi];
        let mut t = format!("QUERY g{pre}{post} {}", ms.iter().map(|m| m.text()).collect::<Vec<_>>().join(", "));
        if let Some((g, u)) = per {
            t.push_str(&format!(" PER {g}"));
            if let Some(u) = u {
                // a SINCE ... USING d filter already names the time field
                if !pre.contains("USING") {
                    t.push_str(&format!(" USING {u}"));
                }
            }
        }
        if !by.is_empty() {
            t.push_str(&format!(" BY {}", by.join(", ")));
        }
        if let Some(l) = limit {
            t.push_str(&format!(" LIMIT {l}"));
        }
        aggs.push(AggQ { text: t.clone(), sel: fi, metrics: ms, by, per, limit, order: None, filter_class: fclass });
        texts.push(t);
    };
    for m in &metrics {
        for by in &bys {
            add(&mut texts, 0, vec![m.clone()], by.clone(), None, None);
        }
    }
    add(&mut texts, 0, vec![Metric::Count, Metric::Total("k")], vec!["b"], None, None);
    // metric lists that keep the columnar (vectorised) path: COUNT / TOTAL / AVG only
    for by in [vec![], vec!["b"], vec!["s"]] {
        add(&mut texts, 0, vec![Metric::Count, Metric::Total("o"), Metric::Avg("o")], by.clone(), None, None);
        add(&mut texts, 0, vec![Metric::Total("k"), Metric::Avg("k"), Metric::Avg("p")], by.clone(), None, None);
    }
    add(&mut texts, 0, vec![Metric::Avg("p"), Metric::Max("k"), Metric::CountUnique("s")], vec!["e"], None, None);
    let core = vec![Metric::Count, Metric::Total("k"), Metric::Avg("p"), Metric::Min("s"), Metric::CountUnique("s")];
    for g in ["HOUR", "DAY", "WEEK", "MONTH", "YEAR"] {
        for u in [Some("d"), None] {
            for by in [vec![], vec!["b"]] {
                for m in if tier == "quick" { &core[..2] } else { &core[..] } {
                    add(&mut texts, 0, vec![m.clone()], by.clone(), Some((g, u)), None);
                }
            }
        }
    }
    for fi in 1..filters.len() {
        for by in [vec![], vec!["e"]] {
            for m in &core {
                add(&mut texts, fi, vec![m.clone()], by.clone(), None, None);
            }
        }
        add(&mut texts, fi, vec![Metric::Count], vec![], Some(("DAY", Some("d"))), None);
    }
    for l in [1usize, 2] {
        for by in [vec!["b"], vec!["e"], vec!["b", "e"]] {
            for m in [Metric::Count, Metric::Total("k")] {
                add(&mut texts, 0, vec![m], by.clone(), None, Some(l));
            }
        }
    }
    // grouped aggregates with ORDER BY a group field and a LIMIT smaller than the number of groups:
    // every partial (shard, memtable, segment) must still contribute to the groups that survive
    for by in [vec!["e"], vec!["s"], vec!["e", "b"]] {
        for desc in [false, true] {
            for l in [1usize, 2] {
                let ms = vec![Metric::Count, Metric::Max("k")];
                let t = format!("QUERY g {} BY {} ORDER BY {}{} LIMIT {l}", ms.iter().map(|m| m.text()).collect::<Vec<_>>().join(", "), by.join(", "), by[0], if desc { " DESC" } else { "" });
                aggs.push(AggQ { text: t.clone(), sel: 0, metrics: ms, by: by.clone(), per: None, limit: Some(l), order: Some((by[0], desc)), filter_class: "no filter" });
                texts.push(t);
            }
        }
    }
    (texts, aggs)
}

pub fn check(tier: &str) -> i32 {
    let (texts, aggs) = build_queries(tier);
    let nsel = texts.len() - aggs.len();
    let judge = |rows: &[(usize, Row)], cfg: &SysConfig, _layout: Layout, qi: usize, reps: &[Reply]| -> Judged {
        let tz_off: i64 = match cfg.timezone.as_str() {
            "Asia/Kolkata" => 19800,
            _ => 0,
        };
        let rep = &reps[qi];
        if qi < nsel {
            // selection queries are C02's business; here they only provide the fold input
            return Judged { answer: None, verdict: Ok(()), class: "selection".into(), nontrivial: false };
        }
        let a = &aggs[qi - nsel];
        let sel = &reps[a.sel];
        if a.order.is_some() && rows.iter().any(|(ti, _)| *ti != 0) {
            // ORDER BY + LIMIT on grouped aggregates is judged on single-type data only: on two-type data
            // the listed in-memory type leak shows or not depending on which tied group the engine
            // happens to keep, which is not determined by the history (observed: differs between runs)
            return Judged { answer: None, verdict: Ok(()), class: "ordered aggregate on two-type data (not judged)".into(), nontrivial: false };
        }
        let class0 = format!("{}{} {}{}{} [{}]", if a.order.is_some() { "ORDER BY + LIMIT: " } else { "" }, a.metrics.iter().map(|m| m.class()).collect::<Vec<_>>().join("+"), if a.by.is_empty() { "" } else { "BY " }, a.by.join(","), a.per.map(|p| format!(" PER {}{}", p.0, if p.1.is_some() { " USING d" } else { "" })).unwrap_or_default(), a.filter_class);
        if rep.failure.is_some() || rep.status != 200 || sel.status != 200 {
            return Judged { answer: Some(format!("status {}", rep.status)), verdict: Err(format!("status {} {} (selection status {})", rep.status, rep.message, sel.status)), class: format!("{class0}: error reply"), nontrivial: true };
        }
        // group the system's own selection
        let mut groups: BTreeMap<Vec<String>, Vec<&Map<String, Value>>> = BTreeMap::new();
        for r in &sel.rows {
            let mut key = Vec::new();
            if let Some((g, u)) = a.per {
                let t = match u {
                    Some(f) => r.get(f).and_then(|v| v.as_i64()),
                    None => r.get("timestamp").and_then(|v| v.as_i64()),
                };
                key.push(t.map(|t| bucket_of_tz(g, t, tz_off).to_string()).unwrap_or("<null>".into()));
            }
            for f in &a.by {
                key.push(cell_str(r.get(*f)));
            }
            groups.entry(key).or_default().push(r);
        }
        if a.by.is_empty() && a.per.is_none() && sel.rows.is_empty() {
            groups.clear();
        }
        let mut errs = Vec::new();
        let mut got_keys: Vec<Vec<String>> = Vec::new();
        let mut canon = Vec::new();
        for gr in &rep.rows {
            let mut key = Vec::new();
            if a.per.is_some() {
                key.push(cell_str(gr.get("bucket")));
            }
            for f in &a.by {
                key.push(cell_str(gr.get(*f)));
            }
            canon.push(format!("{key:?}={}", a.metrics.iter().map(|m| cell_str(gr.get(&m.col()))).collect::<Vec<_>>().join(",")));
            if got_keys.contains(&key) {
                errs.push(format!("group {key:?} reported twice"));
            }
            got_keys.push(key.clone());
            match groups.get(&key) {
                None => errs.push(format!("group {key:?} reported, but no selected event falls into it")),
                Some(members) => {
                    for m in &a.metrics {
                        let want = fold(m, members);
                        if !metric_eq(&want, gr.get(&m.col())) {
                            errs.push(format!("group {key:?} {}: reported {}, fold over the selection gives {}", m.col(), cell_str(gr.get(&m.col())), cell_str(Some(&want))));
                        }
                    }
                }
            }
        }
        let expected_groups = match a.limit {
            Some(l) => groups.len().min(l),
            None => groups.len(),
        };
        if rep.rows.len() != expected_groups {
            let missing: Vec<&Vec<String>> = groups.keys().filter(|k| !got_keys.contains(k)).take(3).collect();
            errs.push(format!("{} groups reported, {} expected ({} selected events form {} groups{}); e.g. missing {missing:?}", rep.rows.len(), expected_groups, sel.rows.len(), groups.len(), a.limit.map(|l| format!(", LIMIT {l}")).unwrap_or_default()));
        }
        if let (Some((_, desc)), Some(l)) = (a.order, a.limit) {
            // the reported groups are the first l of the full group list ordered by the first BY field
            let mut firsts: Vec<String> = groups.keys().map(|k| k[0].clone()).collect();
            firsts.sort();
            firsts.dedup();
            if desc {
                firsts.reverse();
            }
            let allowed: Vec<String> = firsts.into_iter().take(l).collect();
            for k in &got_keys {
                if !allowed.contains(&k[0]) && groups.keys().map(|g| &g[0]).collect::<std::collections::BTreeSet<_>>().len() > l {
                    errs.push(format!("group {k:?} reported, but ORDER BY {} LIMIT {l} selects only {allowed:?}", if desc { "DESC" } else { "ASC" }));
                }
            }
        }
        canon.sort();
        let _ = rows;
        // ORDER BY the first of several group fields with a LIMIT: groups that tie on that field may be
        // cut either way, so layouts are compared on the reported first-field values only (each reported
        // group's metrics are still judged against the fold above)
        if a.order.is_some() && a.by.len() > 1 {
            let mut firsts: Vec<String> = got_keys.iter().map(|k| k[0].clone()).collect();
            firsts.sort();
            canon = firsts;
        }
        Judged {
            answer: Some(canon.join("|")),
            verdict: if errs.is_empty() { Ok(()) } else { Err(errs.join("; ")) },
            class: class0,
            nontrivial: groups.len() > 0,
        }
    };
    let layouts = vec![Layout::Mem, Layout::FlushEnd, Layout::FlushEvery2, Layout::Compact1, Layout::Mixed, Layout::MixedDeep, Layout::RestartWal, Layout::RestartSeg];
    let cfgs = if tier == "quick" {
        vec![SysConfig { fill_factor: 8, event_per_zone: 2, ..Default::default() }, SysConfig { fill_factor: 8, event_per_zone: 1, shards: 3, ..Default::default() }, SysConfig { fill_factor: 8, event_per_zone: 2, timezone: "Asia/Kolkata".into(), ..Default::default() }]
    } else {
        vec![
            SysConfig { fill_factor: 8, event_per_zone: 2, ..Default::default() },
            SysConfig { fill_factor: 8, event_per_zone: 1, shards: 3, ..Default::default() },
            SysConfig { fill_factor: 6, event_per_zone: 3, shards: 2, segments_per_merge: 3, ..Default::default() },
            SysConfig { fill_factor: 8, event_per_zone: 2, timezone: "Asia/Kolkata".into(), ..Default::default() },
        ]
    };
    let spec = Spec {
        prop: "C09",
        tier,
        level: "exploration",
        schemas: schemas(),
        datasets: datasets(tier),
        cfgs,
        layouts,
        queries: texts.clone(),
        judge: &judge,
        rule: "every metric (COUNT, COUNT f, COUNT UNIQUE f, TOTAL, AVG, MIN, MAX over int/float/string fields) x every BY list out of {-, b, e, o, s, (b,e), (e,o)}; metric core x PER {HOUR..YEAR} x {USING d, timestamp} x BY {-, b}; metric core x {WHERE, FOR, SINCE USING, FOR+WHERE} x BY {-, e}; LIMIT {1,2} x BY lists; COUNT+MAX x BY {e, s, (e,b)} x ORDER BY the first group field ASC/DESC x LIMIT {1,2}; on data of two event types (so that a type leak is visible) with duplicate group keys, a nullable group field and instants across hour/day/week/month boundaries; oracle = fold over the rows the same storage state returns for the query without the aggregate clause; distinct_nontrivial = (config, data set, aggregate query) with at least one group".into(),
        assumptions: vec!["calendar buckets: UTC, and Asia/Kolkata (+05:30, no DST) in one configuration; week starts Monday (as configured)".into(), "group key cells are compared by their string rendering; floats with relative tolerance 1e-9".into()],
        describe: &|_| "aggregate reply differs from a fold over the system's own selection (exact cases in known/C09.*.json)".to_string(),
        extra: json!({"aggregate_queries": aggs.len()}),
    };
    prodcheck::run(&spec)
}
