//! C10 — ORDER BY, LIMIT and OFFSET return the right slice in the right order.
//! Oracle: the reply of `... ORDER BY f [DESC] LIMIT n OFFSET m` must be sorted
//! under the field's typed order and carry exactly the multiset of sort keys at
//! positions m..m+n of the reference order of the rows the same storage state
//! returns for the query without ORDER/LIMIT/OFFSET.
use crate::decode::Reply;
use crate::prod::Layout;
use crate::prodcheck::{self, Judged, Spec};
use crate::refq::*;
use crate::sys::SysConfig;
use serde_json::{json, Map, Value};
use std::cmp::Ordering;

pub fn datasets(tier: &str) -> Vec<(String, Vec<(usize, Row)>)> {
    let mk = |id: i64, ctx: &str, k: i64, p: f64, s: &str, o: Option<i64>, d: i64| {
        let mut m = Map::new();
        m.insert("id".into(), json!(id));
        m.insert("k".into(), json!(k));
        m.insert("p".into(), json!(p));
        m.insert("s".into(), json!(s));
        m.insert("b".into(), json!(id % 2 == 0));
        m.insert("e".into(), json!(["x", "y", "z"][(id % 3) as usize]));
        if let Some(o) = o {
            m.insert("o".into(), json!(o));
        }
        m.insert("d".into(), json!(d));
        (0usize, Row { k: id, ctx: ctx.into(), payload: m, ts: 0 })
    };
    let base = vec![
        mk(1, "c0", 3, 1.5, "b", Some(2), 1700000300),
        mk(2, "c1", -1, 10.0, "a", None, 1700000100),
        mk(3, "c0", 3, 2.0, "10", Some(1), 1700000300),
        mk(4, "c1", 10, -0.5, "9", None, 1700000000),
        mk(5, "c0", 2, 1.5, "", Some(2), 1700000200),
        mk(6, "c1", 7, 100.0, "B", Some(-3), 1700000400),
        mk(7, "c0", 3, 0.0, "é", Some(5), 1700000250),
    ];
    // 30 rows with distinct keys: with one row per zone there are more flushed zones than any
    // top-k pre-selection sized from a small LIMIT keeps, so that large OFFSETs matter
    let many: Vec<(usize, Row)> = (0..30).map(|i| mk(100 + i, if i % 2 == 0 { "c0" } else { "c1" }, (i * 7) % 30, i as f64, &format!("s{:02}", (i * 11) % 30), Some(i), 1700001000 + ((i * 13) % 30) * 10)).collect();
    // integer keys above 2^53 that differ by less than one f64 ulp, spread over contexts (shards)
    // and stored in an order that disagrees with the key order
    let big: Vec<(usize, Row)> = [5i64, 1, 7, 3, 0, 6, 2, 4].iter().enumerate().map(|(i, d)| mk(200 + i as i64, ["c0", "c1", "c2"][i % 3], 1_700_000_000_000_000_000 + d, i as f64, &format!("t{i}"), Some(-(1i64 << 60) + 3 * d), 1700002000 + i as i64)).collect();
    // one context with many rows (flushed automatically, enough zones for the coordinator's top-k
    // zone plan) and three small contexts whose few rows hold the smallest keys and stay in memory:
    // shards without picked zones must still contribute the first LIMIT + OFFSET rows
    let mut planner: Vec<(usize, Row)> = (0..60).map(|i| mk(300 + i, "c0", 100 + i, i as f64, &format!("u{i:02}"), Some(i), 1700003000 + i)).collect();
    for (j, cx) in ["c1", "c2", "c3"].iter().enumerate() {
        for i in 0..4i64 {
            planner.push(mk(400 + j as i64 * 10 + i, cx, 1 + j as i64 * 4 + i, -(i as f64), &format!("a{j}{i}"), Some(-1 - i), 1700002000 + j as i64 * 10 + i));
        }
    }
    // 160 rows of one context: with 4 rows per zone, 39 zones {10j..10j+3} and, in the middle, one zone
    // {1, 900, 1, 901} whose smallest key is repeated and whose other keys exceed every other zone's:
    // a per-zone summary of the key range that loses the minimum makes the zone plan skip the zone
    let mut ladder: Vec<(usize, Row)> = Vec::new();
    for j in 0..40i64 {
        let keys: [i64; 4] = if j == 20 { [1, 900, 1, 901] } else { [10 * (j + 1), 10 * (j + 1) + 1, 10 * (j + 1) + 2, 10 * (j + 1) + 3] };
        for (i, k) in keys.iter().enumerate() {
            let id = 500 + j * 4 + i as i64;
            ladder.push(mk(id, "c0", *k, (*k as f64) / 2.0, &format!("w{:04}", k), Some(-*k), 1700004000 + *k));
        }
    }
    let mut out = vec![("seven".to_string(), base.clone()), ("thirty".to_string(), many), ("bigkeys".to_string(), big), ("planner72".to_string(), planner), ("ladder160".to_string(), ladder)];
    if tier != "quick" {
        out.push(("first3".to_string(), base[..3].to_vec()));
        out.push(("one".to_string(), base[..1].to_vec()));
    }
    out
}

#[derive(Debug, Clone)]
struct OQ {
    text: String,
    sel: usize,
    field: Option<&'static str>,
    desc: bool,
    limit: Option<usize>,
    offset: Option<usize>,
    expect_400: bool,
}

/// a string cell that came back as a JSON number (a C07 matter) is taken by its text
fn as_text(v: &Value) -> String {
    match v {
        Value::String(s) => s.clone(),
        o => o.to_string(),
    }
}

fn typed_cmp(field: &str, a: &Value, b: &Value) -> Ordering {
    match field {
        "s" => as_text(a).cmp(&as_text(b)),
        _ => {
            // integers are compared exactly (keys above 2^53 differ by less than an f64 ulp)
            let ai = a.as_i64().map(|x| x as i128).or(a.as_u64().map(|x| x as i128));
            let bi = b.as_i64().map(|x| x as i128).or(b.as_u64().map(|x| x as i128));
            match (ai, bi) {
                (Some(x), Some(y)) => x.cmp(&y),
                _ => a.as_f64().unwrap_or(f64::NAN).partial_cmp(&b.as_f64().unwrap_or(f64::NAN)).unwrap_or(Ordering::Equal),
            }
        }
    }
}

fn key_str_f(field: &str, v: Option<&Value>) -> String {
    match (field, v) {
        ("s", Some(x)) if !x.is_null() => format!("s:{}", as_text(x)),
        _ => key_str(v),
    }
}

fn key_str(v: Option<&Value>) -> String {
    match v {
        None | Some(Value::Null) => "<null>".into(),
        Some(Value::String(s)) => format!("s:{s}"),
        Some(n) if n.as_i64().map_or(false, |x| x.unsigned_abs() > (1u64 << 53)) => format!("n:{n}"),
        Some(n) => format!("n:{}", n.as_f64().map(|f| f.to_string()).unwrap_or(n.to_string())),
    }
}

fn build(tier: &str) -> (Vec<String>, Vec<OQ>, usize) {
    let filters: Vec<(&'static str, &'static str)> = vec![("", ""), ("", " WHERE k >= 3"), (" FOR c0", "")];
    let mut texts: Vec<String> = filters.iter().map(|(a, b)| format!("QUERY g{a}{b}")).collect();
    let nsel = texts.len();
    let mut oqs = Vec::new();
    let grid: Vec<usize> = vec![0, 1, 2, 3, 7, 8];
    let fields = ["k", "p", "s", "d", "o", "timestamp"];
    for (fi, (pre, post)) in filters.iter().enumerate() {
        for f in fields {
            for desc in [false, true] {
                let dir = if desc { " DESC" } else { "" };
                // no LIMIT
                let t = format!("QUERY g{pre}{post} ORDER BY {f}{dir}");
                oqs.push(OQ { text: t, sel: fi, field: Some(f), desc, limit: None, offset: None, expect_400: false });
                if fi > 0 && tier == "quick" && f != "k" {
                    continue;
                }
                for n in &grid {
                    let t = format!("QUERY g{pre}{post} ORDER BY {f}{dir} LIMIT {n}");
                    oqs.push(OQ { text: t, sel: fi, field: Some(f), desc, limit: Some(*n), offset: None, expect_400: false });
                    if fi > 0 || (tier == "quick" && !["k", "s", "o"].contains(&f)) {
                        continue;
                    }
                    for m in &grid {
                        let t = format!("QUERY g{pre}{post} ORDER BY {f}{dir} LIMIT {n} OFFSET {m}");
                        oqs.push(OQ { text: t, sel: fi, field: Some(f), desc, limit: Some(*n), offset: Some(*m), expect_400: false });
                    }
                }
            }
        }
        for n in &grid {
            oqs.push(OQ { text: format!("QUERY g{pre}{post} LIMIT {n}"), sel: fi, field: None, desc: false, limit: Some(*n), offset: None, expect_400: false });
        }
        oqs.push(OQ { text: format!("QUERY g{pre}{post} OFFSET 1"), sel: fi, field: None, desc: false, limit: None, offset: Some(1), expect_400: true });
        oqs.push(OQ { text: format!("QUERY g{pre}{post} ORDER BY k OFFSET 2"), sel: fi, field: Some("k"), desc: false, limit: None, offset: Some(2), expect_400: true });
        oqs.push(OQ { text: format!("QUERY g{pre}{post} LIMIT 3 OFFSET 2"), sel: fi, field: None, desc: false, limit: Some(3), offset: Some(2), expect_400: false });
        if fi == 0 {
            for (n, m) in [(1usize, 11usize), (1, 25), (2, 21), (2, 27), (3, 26)] {
                for desc in [false, true] {
                    let dir = if desc { " DESC" } else { "" };
                    oqs.push(OQ { text: format!("QUERY g ORDER BY k{dir} LIMIT {n} OFFSET {m}"), sel: fi, field: Some("k"), desc, limit: Some(n), offset: Some(m), expect_400: false });
                }
            }
        }
    }
    for q in &oqs {
        texts.push(q.text.clone());
    }
    (texts, oqs, nsel)
}

pub fn check(tier: &str) -> i32 {
    let (texts, oqs, nsel) = build(tier);
    let judge = |_rows: &[(usize, Row)], _cfg: &SysConfig, _layout: Layout, qi: usize, reps: &[Reply]| -> Judged {
        let rep = &reps[qi];
        if qi < nsel {
            return Judged { answer: None, verdict: Ok(()), class: "selection".into(), nontrivial: false };
        }
        let q = &oqs[qi - nsel];
        let sel = &reps[q.sel];
        let class = format!(
            "{}{}{}",
            q.field.map(|f| format!("ORDER BY {f}{}", if q.desc { " DESC" } else { "" })).unwrap_or("no ORDER BY".into()),
            if q.limit.is_some() { " LIMIT" } else { "" },
            if q.offset.is_some() { " OFFSET" } else { "" }
        );
        if q.expect_400 {
            let ok = rep.status == 400;
            return Judged {
                answer: Some(format!("status {}", rep.status)),
                verdict: if ok { Ok(()) } else { Err(format!("OFFSET without LIMIT answered {} {}", rep.status, rep.message)) },
                class: format!("{class} (must be rejected)"),
                nontrivial: true,
            };
        }
        if rep.failure.is_some() || rep.status != 200 || sel.status != 200 {
            return Judged { answer: Some(format!("status {}", rep.status)), verdict: Err(format!("status {} {} (selection {})", rep.status, rep.message, sel.status)), class: format!("{class}: error reply"), nontrivial: true };
        }
        let mut errs = Vec::new();
        let total = sel.rows.len();
        let ids = |rows: &[Map<String, Value>]| rows.iter().filter_map(|r| r.get("id").and_then(|v| v.as_i64())).collect::<Vec<_>>();
        let got_ids = ids(&rep.rows);
        // distinct, and a subset of the selection
        let sel_ids = ids(&sel.rows);
        let mut uniq = got_ids.clone();
        uniq.sort();
        uniq.dedup();
        if uniq.len() != got_ids.len() {
            errs.push(format!("an event is returned twice: ids {got_ids:?}"));
        }
        if got_ids.iter().any(|i| !sel_ids.contains(i)) {
            errs.push(format!("returned ids {got_ids:?} are not a subset of the selection {sel_ids:?}"));
        }
        let m = q.offset.unwrap_or(0);
        let n = q.limit.unwrap_or(usize::MAX);
        let want_len = total.saturating_sub(m).min(n);
        if rep.rows.len() != want_len {
            errs.push(format!("{} rows returned, expected {want_len} (selection {total}, LIMIT {:?}, OFFSET {:?})", rep.rows.len(), q.limit, q.offset));
        }
        let mut canon = String::new();
        if let Some(f) = q.field {
            // sortedness under the typed order; missing keys must be all first or all last
            let keys: Vec<Option<&Value>> = rep.rows.iter().map(|r| r.get(f).filter(|v| !v.is_null())).collect();
            let present: Vec<&Value> = keys.iter().flatten().copied().collect();
            for w in present.windows(2) {
                let o = typed_cmp(f, w[0], w[1]);
                if (!q.desc && o == Ordering::Greater) || (q.desc && o == Ordering::Less) {
                    errs.push(format!("not sorted by {f}: {} before {}", key_str_f(f, Some(w[0])), key_str_f(f, Some(w[1]))));
                    break;
                }
            }
            let first_null = keys.iter().position(|k| k.is_none());
            let last_null = keys.iter().rposition(|k| k.is_none());
            if let (Some(a), Some(b)) = (first_null, last_null) {
                let nulls = keys.iter().filter(|k| k.is_none()).count();
                let contiguous = b - a + 1 == nulls;
                if !(contiguous && (a == 0 || b == keys.len() - 1)) {
                    errs.push(format!("rows with a missing {f} are neither all first nor all last"));
                }
            }
            // multiset of keys at positions m..m+n of the reference order (nulls first or nulls last)
            let mut ref_present: Vec<&Value> = sel.rows.iter().filter_map(|r| r.get(f).filter(|v| !v.is_null())).collect();
            ref_present.sort_by(|a, b| if q.desc { typed_cmp(f, b, a) } else { typed_cmp(f, a, b) });
            let n_null = sel.rows.len() - ref_present.len();
            let mk = |nulls_first: bool| -> Vec<String> {
                let mut all: Vec<String> = Vec::new();
                if nulls_first {
                    all.extend(std::iter::repeat("<null>".to_string()).take(n_null));
                }
                all.extend(ref_present.iter().map(|v| key_str_f(f, Some(v))));
                if !nulls_first {
                    all.extend(std::iter::repeat("<null>".to_string()).take(n_null));
                }
                let mut s: Vec<String> = all.into_iter().skip(m).take(n).collect();
                s.sort();
                s
            };
            let mut got_keys: Vec<String> = keys.iter().map(|k| key_str_f(f, *k)).collect();
            got_keys.sort();
            if got_keys != mk(true) && got_keys != mk(false) {
                errs.push(format!("sort keys returned {got_keys:?}; positions {m}..{m}+{} of the reference order hold {:?} (or {:?} with missing keys last)", q.limit.map(|x| x.to_string()).unwrap_or("all".into()), mk(true), mk(false)));
            }
            canon = if f == "timestamp" { format!("{} rows", rep.rows.len()) } else { format!("{got_keys:?}") };
        } else {
            canon = format!("{} rows", rep.rows.len());
        }
        Judged { answer: Some(canon), verdict: if errs.is_empty() { Ok(()) } else { Err(errs.join("; ")) }, class, nontrivial: total > 1 }
    };
    let layouts = vec![Layout::Mem, Layout::FlushEnd, Layout::FlushEach, Layout::FlushEvery2, Layout::Compact1, Layout::Mixed, Layout::MixedDeep, Layout::RestartSeg];
    let cfgs = if tier == "quick" {
        vec![SysConfig { fill_factor: 8, event_per_zone: 2, ..Default::default() }, SysConfig { fill_factor: 8, event_per_zone: 1, shards: 3, ..Default::default() }, SysConfig { fill_factor: 10, event_per_zone: 4, ..Default::default() }]
    } else {
        vec![
            SysConfig { fill_factor: 8, event_per_zone: 2, ..Default::default() },
            SysConfig { fill_factor: 8, event_per_zone: 1, shards: 3, ..Default::default() },
            SysConfig { fill_factor: 8, event_per_zone: 3, shards: 2, ..Default::default() },
            SysConfig { fill_factor: 10, event_per_zone: 4, ..Default::default() },
            SysConfig { fill_factor: 40, event_per_zone: 4, ..Default::default() },
        ]
    };
    let spec = Spec {
        prop: "C10",
        tier,
        level: "exploration",
        schemas: vec![crate::c09::schemas()[0].clone()],
        datasets: datasets(tier),
        cfgs,
        layouts,
        queries: texts.clone(),
        judge: &judge,
        rule: "sort field in {k, p, s, d, o (nullable), timestamp} x {ASC, DESC} x LIMIT n x OFFSET m with n, m in {0,1,2,3,N,N+1}, plus plain LIMIT, OFFSET without LIMIT (must be 400), under {no filter, WHERE, FOR}; data with duplicate and missing sort keys and numeric-looking strings; oracle: sortedness under the typed order, multiset of sort keys at positions m..m+n of the reference order of the same state's unordered selection, no event twice, subset of the selection; distinct_nontrivial = (config, data set, query) over selections of >1 rows".into(),
        assumptions: vec!["string order = byte order; rows with a missing sort key may all come first or all come last".into()],
        describe: &|_| "ordered / limited reply is not the right slice of the system's own selection (exact cases in known/C10.*.json)".to_string(),
        extra: json!({}),
    };
    prodcheck::run(&spec)
}
