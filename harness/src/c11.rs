//! C11 — published segments are immutable and appear or disappear as a whole.
//! Decided by the FS monitor (fsmon) observing every file-system mutation of
//! exhaustive short histories (and of the recovery runs after every crash
//! point), plus static rules on every crash snapshot.
use crate::c01::{deep_histories, leaves, run_history, Stats, Tok};
use crate::job::SnapMode;
use crate::lab::*;
use crate::sys::SysConfig;
use serde_json::json;
use std::collections::{BTreeMap, BTreeSet, HashSet};
use std::sync::Mutex;

fn tag_of(msg: &str) -> &'static str {
    if msg.contains("segment id reused") {
        "id-reuse"
    } else if msg.contains("incomplete-after-crash") {
        "incomplete-after-crash"
    } else if msg.contains("unknown-after-crash") {
        "unknown-after-crash"
    } else if msg.contains("on published segment") || msg.contains("onto published segment") {
        "mutation-under-published"
    } else if msg.contains("pre-existing (stale) segment directory") {
        "stale-dir-write"
    } else if msg.contains("modified in place") {
        "index-in-place"
    } else if msg.contains("changed on disk") {
        "published-changed"
    } else if msg.contains("has no directory") {
        "published-missing-dir"
    } else if msg.contains("index names segment") || msg.contains("undecodable") {
        "index-names-incomplete"
    } else {
        "other"
    }
}

fn dedicated() -> Vec<Vec<Tok>> {
    use Tok::*;
    vec![
        // restart after compaction emptied the L0 range, then new flushes
        vec![Fill, Fill, Compact, Restart, Fill],
        vec![Fill, Fill, Compact, Restart, Sa, Flush, Fill],
        // empty flushes
        vec![Flush, Flush, Sa, Flush, Restart, Flush, Sa, Flush],
        // several compaction rounds then restart and flush
        vec![Fill, Fill, Compact, Compact, Fill, Fill, Compact, Restart, Fill, Compact],
        vec![Sa, Sb, Flush, Sa, Sb, Flush, Compact, Restart, Sa, Sb, Flush, Compact],
        // segments that share event types only partly: a compaction round retires an input
        // for one type while another type keeps it alive
        vec![Fill, Fill, Sb, Sa, Flush, Compact],
        vec![Sb, Flush, Fill, Fill, Compact],
        vec![Sb, Sa, Flush, Fill, Fill, Compact, Compact],
        vec![Fill, Sb, Sa, Flush, Fill, Compact, Restart, Fill, Fill, Compact],
    ]
}

pub fn check(tier: &str) -> i32 {
    let t0 = std::time::Instant::now();
    let kf = crate::known::load();
    let scratch = Scratch::new("c11");
    use Tok::*;
    let alphabet = [Sa, Fill, Flush, Compact, Restart];
    let cfgs: Vec<SysConfig> = if tier == "quick" {
        vec![SysConfig::default()]
    } else {
        vec![SysConfig::default(), SysConfig { shards: 2, fill_factor: 1, event_per_zone: 2, segments_per_merge: 3, ..Default::default() }]
    };
    // (history, snapshots?)
    let mut work: Vec<(SysConfig, Vec<Tok>, SnapMode)> = Vec::new();
    for c in &cfgs {
        for h in leaves(&alphabet, if tier == "quick" { 3 } else { 4 }) {
            work.push((c.clone(), h, SnapMode::Off));
        }
        for h in dedicated() {
            work.push((c.clone(), h, SnapMode::Off));
        }
        if tier != "quick" {
            // two event types in the exhaustive alphabet
            for h in leaves(&[Sa, Sb, Fill, Flush, Compact, Restart], 4).into_iter().filter(|h| h.contains(&Sb)) {
                work.push((c.clone(), h, SnapMode::Off));
            }
        }
        let mut crash_set = leaves(&alphabet, 2);
        crash_set.extend(deep_histories());
        crash_set.extend(dedicated());
        if tier != "quick" {
            crash_set.extend(leaves(&alphabet, 3));
        }
        for h in crash_set {
            work.push((c.clone(), h, if tier == "quick" { SnapMode::Coarse } else { SnapMode::Fine }));
        }
    }
    let memo = Mutex::new(HashSet::new());
    let stats = Mutex::new(Stats::default());
    let mon: Mutex<Vec<(Vec<Tok>, String)>> = Mutex::new(Vec::new());
    let _ = par_map(&work, threads(), |i, (c, h, snap)| {
        let d = scratch.dir.join(format!("h{i}"));
        let f = run_history(&d, h, c, *snap, &memo, &stats, &mon);
        let _ = std::fs::remove_dir_all(&d);
        f.len()
    });
    // flush and compaction interleaved at the index hand-over: the compaction round is held inside
    // (and right after) its index lock while a flush runs; the monitor watches both
    {
        let mut races = Vec::new();
        for segs in [vec![1u8, 1], vec![3u8, 1, 3]] {
            for gate in ["compact.output_written", "compact.index_locked", "compact.index_swapped"] {
                races.push(crate::c05::Race { pop: crate::c05::Pop { cfg: SysConfig { fill_factor: 3, event_per_zone: 2, segments_per_merge: 2, ..Default::default() }, segs: segs.clone(), rounds: 1 }, compaction_held: true, park: Some((gate.to_string(), 0, 10000, 0)) });
            }
        }
        let rr = par_map(&races, threads(), |i, r| crate::c05::run_race(&scratch.dir.join(format!("race{i}")), r));
        for (i, r) in rr.iter().enumerate() {
            match r {
                Err(e) => {
                    eprintln!("MACHINERY: {e}");
                    return 2;
                }
                Ok((_, jr)) => {
                    if !jr[0].gates.iter().any(|g| g.parked) {
                        eprintln!("MACHINERY: race trap never hit: {:?}", races[i].park);
                        return 2;
                    }
                    for x in jr {
                        for v in &x.monitor {
                            mon.lock().unwrap().push((vec![], format!("flush while the compaction round is held at {:?} (segments {:?}): {v}", races[i].park.as_ref().map(|p| &p.0), races[i].pop.segs)));
                        }
                    }
                }
            }
        }
    }
    let st = stats.lock().unwrap();
    if !st.machinery.is_empty() {
        for m in st.machinery.iter().take(5) {
            eprintln!("MACHINERY: {m}");
        }
        return 2;
    }
    let mon = mon.lock().unwrap();
    let mut by_tag: BTreeMap<&'static str, Vec<&(Vec<Tok>, String)>> = BTreeMap::new();
    for m in mon.iter() {
        by_tag.entry(tag_of(&m.1)).or_default().push(m);
    }
    let mut nv = 0;
    clear_replays("C11");
    for (tag, ms) in &by_tag {
        let mut ms = ms.clone();
        ms.sort_by_key(|m| m.0.len());
        if kf.is_known("C11", tag) {
            println!("KNOWN-FINDING: property=C11 {tag}: {} [{} observations, shortest history {:?}: {}]", kf.describe("C11", tag), ms.len(), ms[0].0, ms[0].1.chars().take(160).collect::<String>());
        } else {
            nv += 1;
            let path = write_replay("C11", &json!({"property": "C11", "rule": tag, "history": ms[0].0, "message": ms[0].1, "count": ms.len(), "how": "run the history with the FS monitor on (verif check C11 runs it)"}));
            println!("VIOLATION property=C11 replay={path}");
            eprintln!("  [{tag}] {:?}: {} ({} observations)", ms[0].0, ms[0].1, ms.len());
        }
    }
    let samples: Vec<serde_json::Value> = work.iter().step_by((work.len() / 6).max(1)).take(6).map(|(c, h, s)| json!({"config": [c.shards, c.fill_factor, c.event_per_zone, c.segments_per_merge], "history": h, "crash_points": format!("{s:?}")})).collect();
    write_evidence(&Evidence {
        property_id: "C11".into(),
        tier: tier.into(),
        seed: seed(),
        level: "model_checking".into(),
        coverage: json!({
            "states": st.fs_events.max(1),
            "transitions": st.monitor_checks.max(1),
            "traces_validated_against_impl": st.histories + st.recoveries,
            "samples": samples,
            "histories": st.histories,
            "lifetimes": st.lifetimes,
            "fs_mutations_observed": st.fs_events,
            "monitor_rule_evaluations": st.monitor_checks,
            "crash_snapshots_statically_checked": st.distinct_snapshots,
            "recovery_runs_monitored": st.recoveries,
            "rules": ["no open-for-write/write/unlink/rename/truncate under a published segment (live list U segments.idx)", "no segment id published twice (all-time set persisted across lifetimes)", "segments.idx changes only by rename of a temp file", "every published segment keeps the file set and bytes it had when first published (re-hashed at every index swap and lifetime start)", "after any crash the restarted process publishes only segments identical to the ones the uninterrupted run published under the same id", "segments.idx of every crash snapshot decodes and names only directories holding a .zones file per uid"],
            "exhaustive": true,
            "explanation": "states = FS mutations at which the monitor evaluated its rules against the current published set; the monitor runs inside every lifetime of every history (all histories of length <= d over {STORE, FILL, FLUSH, COMPACT, RESTART} plus dedicated longer ones) and inside the recovery run of every crash point of the crash subset",
        }),
        assumptions: vec!["FS mutations are observed by interposing libc (self-tested at setup); writable shared mappings of watched files are counted and would be reported".into(), "published set = live segment list read through the shard's shared handle U ids decoded from segments.idx".into()],
        wall_s: t0.elapsed().as_secs_f64(),
        violations: nv,
    });
    let _ = BTreeSet::<u8>::new();
    if nv == 0 { 0 } else { 1 }
}
