#!/bin/sh
# one-off: build the harness (and snel_db with feature `verif`) offline
cd /verif/harness || exit 2
export CARGO_NET_OFFLINE=true
cp /repo/Cargo.lock Cargo.lock && cp /repo/Cargo.lock .Cargo.lock.src
mkdir -p /verif/evidence /verif/replays
cargo build --offline && /verif/target/debug/verif selftest
