#!/bin/sh
# usage: ./check.sh <property id>      (tier from $VERIF_TIER, default quick)
# Rebuilds the harness against /repo's current working tree (feature `verif`
# on), then runs the check. exit 0 = held, 1 = VIOLATION printed, 2 = machinery.
ID="$1"
cd /verif/harness || exit 2
export CARGO_NET_OFFLINE=true
if ! cmp -s /repo/Cargo.lock .Cargo.lock.src 2>/dev/null; then
  cp /repo/Cargo.lock Cargo.lock && cp /repo/Cargo.lock .Cargo.lock.src
fi
mkdir -p /verif/evidence /verif/replays /verif/target
if ! cargo build --offline >/verif/target/build.$$.log 2>&1; then
  echo "MACHINERY: harness/repo build failed (see below)" >&2
  tail -n 40 /verif/target/build.$$.log >&2
  rm -f /verif/target/build.$$.log
  exit 2
fi
rm -f /verif/target/build.$$.log
exec /verif/target/debug/verif check "$ID"
