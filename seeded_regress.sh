#!/bin/bash
# Applies every kept seeded change to /repo in turn, runs the quick check of its property (or the one named in its caught_by file) and
# expects a VIOLATION (exit 1); restores /repo after each. Usage: seeded_regress.sh [dir-prefix...]
cd /verif
out=/verif/target/seeded_regress.log; : > $out
for d in seeded/*/; do
  name=$(basename $d); id=${name%%-*}
  # a change that another property's check reports names that check in the file caught_by
  [ -f $d/caught_by ] && id=$(cat $d/caught_by)
  if [ $# -gt 0 ]; then ok=0; for p in "$@"; do case $name in $p*) ok=1;; esac; done; [ $ok = 1 ] || continue; fi
  if ! git -C /repo apply --check $PWD/$d/patch.diff 2>/dev/null; then echo "$name: patch does not apply" | tee -a $out; continue; fi
  git -C /repo apply $PWD/$d/patch.diff
  flock /verif/target/lock.$id ./check.sh $id > /verif/target/seeded_$name.log 2>&1; e=$?
  git -C /repo checkout -- .
  echo "$name: check $id exit=$e violations=$(grep -c '^VIOLATION' /verif/target/seeded_$name.log)" | tee -a $out
done
# leave a pristine binary behind
cd /verif/harness && cargo build --offline >/dev/null 2>&1
echo done | tee -a $out
