#!/bin/sh
# usage: suite_in.sh <worktree>  — runs the pinned suite there (guard off) and compares with BASELINE.json
cd "$1" || exit 2
cargo nextest run --workspace --no-fail-fast --tool-config-file pb:/w/lib/nextest.toml --profile pb --test-threads 8 --offline > "$1/suite.log" 2>&1
python3 - "$1" <<'PY'
import json,sys,xml.etree.ElementTree as ET
wt=sys.argv[1]
b=json.load(open('/root/.vp/BASELINE.json')); want=set(b['stable_pass'])
t=ET.parse(wt+'/target/nextest/pb/junit.xml'); passed=set()
for ts in t.getroot().iter('testsuite'):
    for tc in ts.iter('testcase'):
        bad=any(c.tag in('failure','error') for c in tc)
        if not bad: passed.add(tc.get('classname','')+'::'+tc.get('name')); passed.add(ts.get('name')+'::'+tc.get('name'))
missing=[w for w in want if w not in passed]
print('baseline',len(want),'missing',len(missing)); print(missing[:10])
PY
