NA={}
chk("C01","fault_enumeration",
 "every history up to the stated depth over the op alphabet is executed on the real engine (fresh process per lifetime) and, in the last lifetime, the file-system tree before every FS-mutating system call is a crash point from which a fresh process recovers and is judged against the reference set of acknowledged events; configurations with a buffered WAL are judged by the weak crash clause (per-shard prefix of the applied events, no duplicates, no corruption) at crash points and by the strong clause across clean restarts",
 "process-crash model (completed syscalls persist); single-threaded tokio runtime, paused clock; known findings matched by the protocol model in harness/src/c01model.rs",
 "exhaustive bounded history enumeration x exhaustive crash-point enumeration on the implementation (FS interposition)","histx+crashx","DESIGN.md §2.5 §2.6 §3 C01")
chk("C17","exploration",
 "bounded-exhaustive enumeration of token strings, syntax trees (print->parse identity), single-token corpus mutations and nesting depths against the real parser, and dispatch of every distinct parsed command against a live instance",
 "in-process parses under catch_unwind, non-unwinding failures only in the subprocess sweep; alphabet and corpus are finite",
 "bounded exhaustive input enumeration against the real parser/dispatcher","unitx","DESIGN.md §3 C17")
chk("C18","model_checking",
 "explicit-state BFS over the real EventIdGenerator under an injected clock (all delta/burst/restart action sequences to the depth bound, canonical state = generator fields relative to the clock) plus end-to-end id stability/monotonicity on exhaustive short histories under three clock scripts",
 "wall clock owned by interposing clock_gettime; sched_yield advances the injected clock so the spin-wait terminates",
 "explicit-state search of the real transition function + bounded exhaustive histories","unitx+histx","DESIGN.md §3 C18")
chk("C02","exploration",
 "product-mode enumeration on the real engine: data multisets x 10 storage layouts (memory, L0 x1/xn, L1, L2, mixed, WAL-recovered, segment-recovered) x configurations x a predicate alphabet, and a second part in which rows of a second event type share memtables, segments and zones with the queried one; each answer is compared with a reference evaluator and with the same query's answer in every other layout",
 "reference semantics written from the documentation; null-dependent predicates judged by cross-layout agreement only; one pinned hash seed; known findings are exact cases with committed digests (known/C02.*.json)",
 "bounded exhaustive enumeration of data x layout x query against a reference model and a cross-layout differential oracle","histx product mode","DESIGN.md §2.5 §3 C02")
chk("C19","fault_enumeration",
 "every combination of WAL contents, eligible set, per-file archive fault and archive-directory fault up to n logs is set up on a real file system and run through the real WalCleaner (conservative mode) and WalArchiveRecovery; deleted files and recovered entries are compared with the original lines",
 "faults realised as type clashes (root ignores permission bits); configured directories as in production",
 "exhaustive fault-pattern enumeration against the real component","unitx","DESIGN.md §3 C19")
chk("C07","exploration",
 "product-mode enumeration: rows built from per-type value alphabets (all pairs of alphabet positions sharing a zone) x 6 storage tiers x 23 QUERY/REPLAY RETURN variants; every returned cell compared with the stored value per declared type, core fields and projection checked; answers compared across tiers",
 "numbers compare numerically; null/absent optionals interchangeable; exact-case known findings in known/C07.*.json",
 "bounded exhaustive enumeration of values x storage tier x projection against an identity oracle and a cross-tier differential oracle","histx product mode","DESIGN.md §3 C07")
chk("C09","exploration",
 "every metric x BY list x PER granularity x filter x LIMIT combination of the stated alphabet is run in 8 storage layouts x 2-3 configurations on two-type data; each aggregate reply is compared with a fold over the rows the same storage state returns for the query without the aggregate clause (the property verbatim), and across layouts",
 "calendar arithmetic written independently (UTC, Monday weeks); exact-case known findings in known/C09.*.json",
 "bounded exhaustive enumeration of aggregate queries x layouts; oracle = fold over the system's own selection","histx product mode","DESIGN.md §3 C09")
chk("C10","exploration",
 "sort field x direction x (LIMIT, OFFSET) grid x filters x 8 layouts x configurations on data with duplicate and missing sort keys; each reply must be sorted under the typed order, be the right positional slice (as a multiset of sort keys) of the same state's unordered selection, contain no event twice; OFFSET without LIMIT must be rejected",
 "byte order for strings; rows with a missing key may come first or last; exact-case known findings in known/C10.*.json",
 "bounded exhaustive enumeration of order/limit/offset queries x layouts against a reference slice of the system's own selection","histx product mode","DESIGN.md §3 C10")
chk("C03","model_checking",
 "for every history of the stated set and every named step boundary (gate) of the rotation under test - 11 flush-worker gates and 6 gates inside the zone writer - the flush task is held there on the real engine while a second client stores 2*capacity more events (queueing further rotations) and runs the read suite after every STORE with no barrier; thorough adds a second deviation (the rotation queued behind is held at each of its gates after the first was released): all schedules with <= D deviations are executed and every read is judged against the reference set of acknowledged events",
 "switch points are the named gates; inside a step tokio's order is followed (a read racing with the un-gated interior of a step is outside the explored space); listed defects are matched by predictors over the gate log",
 "exhaustive deviation-bounded schedule enumeration of the real implementation under a gate-controlled scheduler","schedx","DESIGN.md §2.7 §3 C03")
chk("C11","model_checking",
 "a monitor on every file-system mutation (libc interposition) holds the published set (live list U segments.idx) and the all-time id set and evaluates the immutability / fresh-id / atomic-index rules at every mutation of every lifetime of exhaustive short histories; every crash snapshot is checked statically and its recovery run is monitored and compared, segment by segment, with what the uninterrupted run published",
 "FS calls observed through interposed libc symbols (self-test at setup); mmap writes would be counted; bounded histories",
 "runtime monitor over exhaustively enumerated histories and crash points of the real implementation","fsmon+histx+crashx","DESIGN.md §2.8 §3 C11")
chk("C05","model_checking",
 "every assignment of event types to 3-4(5) L0 segments x fan-in k, three compaction rounds on the real CompactionWorker with the full observation suite after every round (before == after, attributed with the stored events); for a subset the compaction task is held at every gate of its first round while the suite is read; crash at every FS-mutation boundary of compaction histories with recovery judged by the C01 oracle",
 "compaction triggered through the public worker API with the shard's live list and flush lock; queries whose pre-compaction answer is already wrong (C02/C04 defects) are not judged; exact-case known findings in known/C05.*.json and C01's protocol model for crash points",
 "exhaustive enumeration of segment populations x rounds, gate-controlled schedules and crash points on the real implementation","histx+schedx+crashx","DESIGN.md §3 C05")
chk("C04","model_checking",
 "three per-context append patterns x every placement of <= j layout ops (FLUSH, COMPACT, RESTART) between the appends x configurations are executed on the real engine; every REPLAY variant's exact returned key sequence is compared with the append order",
 "result streams follow tokio's deterministic single-thread order (fan-in gates are not explored); exact-case known findings in known/C04.*.json",
 "exhaustive bounded history enumeration of the real implementation against a sequence oracle","histx","DESIGN.md §3 C04")
chk("C06","exploration",
 "every documented type spelling, nullable unions and an enum as the type of one field x a 23-value slot alphabet x structural payload/context/type faults x failed redefinition, through parse + dispatch on the real engine; the verdict is acceptance == reference conformance, and QUERY/REPLAY afterwards show exactly the accepted events",
 "the reference conformance function is written from the property statement; cases the statement leaves open (date-only strings for datetime fields, numeric strings for time fields, u64 above i64::MAX for times) are counted but not judged",
 "bounded exhaustive input enumeration against a reference validator, end to end","unitx","DESIGN.md §3 C06")
chk("C12","exploration",
 "250 context ids x shard counts 1..8 x {clean, kill} restart: one STORE per context in each of two process lifetimes with different hash seeds, then scoped QUERY/REPLAY per context, one unscoped QUERY and the WAL directories on disk; shard tags of event ids must be constant per context, below the shard count, agree with the WAL directory, scoped reads complete, the unscoped read the union",
 "shard tag = bits 12..22 of the event id",
 "bounded exhaustive input x configuration enumeration against the routing invariants","unitx+histx","DESIGN.md §3 C12")
chk("C20","exploration",
 "every command of a result-shape alphabet is answered by the same storage state through the JSON, Arrow and text renderers (real response writer); the three byte streams are decoded independently (serde_json, arrow_ipc, a line parser) and compared: status, column names, row count, every cell, announced row count; over layouts and response batch sizes; plus, at component level (hook H6), the real QUERY and SHOW response writers fed with every composition of n<=5 (thorough 7) rows into batches x every duplicate-id pattern x LIMIT x OFFSET x streaming batch size, rendered three times and compared the same way",
 "end-to-end part: only results the engine itself produces; writer-level part: well-typed cells only (cells whose runtime type differs from the declared one are not fed); exact-case known findings in known/C20.*.json",
 "bounded exhaustive enumeration of result shapes with a three-way differential oracle over independent decoders","unitx+histx","DESIGN.md §3 C20")
chk("C16","exploration",
 "instants (incl. before 1970 and at the digit-count boundaries of the unit heuristic) x spellings (epoch s/ms/us/ns as numbers and strings, float seconds, RFC 3339 with four offsets and fractional seconds .25/.5/.75/.999999, float seconds + 0.7, milliseconds + 700) x four sites (STORE payload, SINCE USING, WHERE literal under all six operators, PER bucket under five granularities) x timezone / week-start configurations x {memory, flushed}; the stored value must be the instant's epoch second, and each literal / bucket is judged against the values the system itself returns",
 "independent integer calendar arithmetic; flushed layout restricted to a narrow cluster of instants (the temporal index builder does not cope with spans of decades); exact-case known findings in known/C16.*.json",
 "bounded exhaustive input enumeration against an independent reference of instant arithmetic","unitx+histx","DESIGN.md §3 C16")
chk("C15","exploration",
 "every assignment of (link value incl. absent, time) to small a/b event sets x FOLLOWED BY / PRECEDED BY x WHERE placements x LIMIT x layouts x shard counts on the real engine; constraint oracle from the statement (pairs linked, ordered, WHERE-satisfying; matched a-set == a-events with a qualifying partner; LIMIT bounds pairs) plus cross-layout agreement",
 "which qualifying partner a pair carries is not prescribed; exact-case known findings in known/C15.*.json",
 "bounded exhaustive enumeration of event sets x queries against a constraint oracle","histx product mode","DESIGN.md §3 C15")
chk("C14","model_checking",
 "all sequences of length d over {STORE in the same millisecond / 1 ms later / next second, FLUSH, COMPACT, RESTART, SHOW+QUERY} with REMEMBER at every position, followed by two SHOWs and a second REMEMBER, for several remembered queries and 1-2 shards, on the real engine with an injected clock; each SHOW must equal the live query issued right after it, each event once",
 "clock owned by interposing clock_gettime; exact-case known findings in known/C14.*.json",
 "exhaustive bounded history enumeration of the real implementation with a differential oracle (SHOW vs live QUERY)","histx","DESIGN.md §3 C14")
chk("C13","model_checking",
 "explicit-state BFS over the authorisation state of a target user (role, read/write grants, key active, session token) under GRANT / REVOKE / REVOKE KEY / AUTH / session expiry, for nine roots (six roles, three special user ids); every state is realised on the real engine through the TCP listener's own authentication gate + parse + dispatch and probed with 17 command kinds x 10 authentication forms / credential validities; executed => authenticated and permitted",
 "TCP gate driven through hook H7 (HTTP / WebSocket gates not driven); one-directional oracle; reference matrix written from the statement",
 "explicit-state search over a reference authorisation machine with every state replayed against the real gate and dispatcher","authx","DESIGN.md §3 C13")
chk("C08","exploration",
 "zones holding every multiset of 3 positions of a 14-value alphabet per kind (plus segments of 1, 3, 11, 12 zones) are planned and written through ZonePlanner::plan + ZoneWriter::write_all; every structure file (zone SuRF, per-zone and per-field membership filters, enum bitmaps, calendar, per-zone time index, context index) is loaded and probed with every alphabet value, absent values and cross-kind literals under every operator; then the same kinds of zones are STOREd and FLUSHed through the real shard and every probe `field op literal` is planned by the real QueryPlan and answered by the real ZoneCollector (strategy choice + pruners + combination); a zone holding a match that is not listed / not a candidate is a violation",
 "probe keys are built as the range pruner builds them; the per-field temporal calendar is only covered end to end (C02/C16); exact (class -> digest) known findings in known/C08.*.json",
 "bounded exhaustive input enumeration against a brute-force scan, on the real builders and probes","unitx","DESIGN.md §3 C08")
