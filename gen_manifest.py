#!/usr/bin/env python3
# regenerates MANIFEST.json from the table below (keeps it valid at all times)
import json, subprocess
props=[json.loads(l)['id'] for l in open('/verif/properties.jsonl')]
b=json.load(open('/root/.vp/BASELINE.json'))
C={}
def chk(pid, cat, text, note, tech, engine, ref):
    C[pid]={"property_id":pid,"quick_cmd":f"./check.sh {pid}","thorough_cmd":f"VERIF_TIER=thorough ./check.sh {pid}",
      "evidence_file":f"/verif/evidence/{pid}.json","replay_cmd_template":"cat {path}","engine":engine,
      "level_claimed":{"category":cat,"text":text,"design_ref":ref},"level_note":note,"technique":tech}
exec(open('/verif/manifest_table.py').read())
hooks=subprocess.run("git -C /repo log --format=%h --grep='^verif hook'",shell=True,capture_output=True,text=True).stdout.split()
m={"version":1,"setup_cmd":"./setup.sh",
 "hooks":{"guard":"cargo feature `verif` of snel_db","enable":"the harness depends on snel_db with features=[\"verif\"] (path /repo); hooks are `#[cfg(feature = \"verif\")]` lines","baseline_off_cmd":b['cmd'],"source_commits":hooks[::-1],"add_only":True},
 "engines":[{"name":"vharness","path":"/verif/harness","serves_properties":sorted(C),"kind_free_text":"Rust harness driving the real engine in-process: exhaustive history explorer, crash-point enumerator (libc interposition of FS calls), gate-based scheduler for background tasks, FS monitor, explicit-state BFS over real components"}],
 "checks":[C[k] for k in sorted(C)],
 "not_applicable":[{"property_id":p,"reason":NA.get(p,"check not built yet (work in progress, see DESIGN.md §7)")} for p in props if p not in C],
 "notes":"see DESIGN.md; known findings in known_findings.json"}
json.dump(m,open('/verif/MANIFEST.json','w'),indent=1)
print(sorted(C))
