#!/bin/sh
# runs the repository's pinned suite with the guard OFF and compares with BASELINE.json
cd /repo || exit 2
rm -f /verif/target/baseline.junit.xml
cargo nextest run --workspace --no-fail-fast --tool-config-file pb:/w/lib/nextest.toml --profile pb --test-threads 8 --offline > /verif/target/baseline.log 2>&1
python3 - <<'PY'
import json,glob,xml.etree.ElementTree as ET,sys
b=json.load(open('/root/.vp/BASELINE.json'))
want=set(b['stable_pass'])
fs=glob.glob('/repo/target/nextest/pb/*.xml')+glob.glob('/w/logs/*.junit.xml')
import os
fs.sort(key=os.path.getmtime)
if not fs: print('no junit'); sys.exit(2)
t=ET.parse(fs[-1]); passed=set()
for ts in t.getroot().iter('testsuite'):
    for tc in ts.iter('testcase'):
        bad=any(c.tag in('failure','error') for c in tc)
        name=ts.get('name')+'::'+tc.get('name') if not tc.get('name').startswith(ts.get('name')) else tc.get('name')
        if not bad: passed.add(name); passed.add(tc.get('classname','')+'::'+tc.get('name'))
missing=[w for w in want if w not in passed]
print('junit',fs[-1],'baseline',len(want),'missing',len(missing)); print(missing[:20])
PY
